(* Engine/Model.v -- executable set-level model of the code that eqlog generates for `close_until`
   and for the mutating API (new_/insert_/define_/equate_).  Definitions only, no proofs.

   What is modelled (cf. the generated semilattice.eql.rs and rust_gen/mod.rs::display_close_until_fn):

     close_until(cond):  canonicalize; if cond return true; delta = empty;
        loop { run all rule fns against (new,old), pushing conclusions into delta;
               move_new_to_old; apply_equalities; canonicalize; apply_tuples;
               if cond { apply_func_defs; return true }
               if !dirty { apply_func_defs; if !dirty return false } }

   Abstractions (all of them are stated here so that nobody has to guess):
   * Elements are untyped [N]; ids are allocated densely from ONE counter [next_id] (the real code has
     one id space per type).  Type sets are ordinary unary relations [FTySet t] with new/old parts.
     In particular [equate] does not touch the type sets; the row [child] of a type set is rewritten
     by the next [canonicalize] like every other row (the real code removes it inside equate_; at every
     point where close_until evaluates its condition or returns both agree, provided only elements of
     the same type are equated).
   * Tables are lists of facts (relation, row) without any index copies; "set level".  The order of
     the lists is not meaningful.
   * Union: the root of the left argument wins (the real code compares weights first and takes the left
     root on a tie; weights depend on index selection, which is not modelled here).
   * [uprooted] is not kept: canonicalize rewrites every row that mentions a non-root, which is what the
     uprooted list achieves; is_dirty is only evaluated when uprooted is empty.
   * [pending] is the `new_<f>_def` part of the local `delta` of close_until.  It is a field of the
     state so that an iteration is a function state -> state; it is reset when close_until starts and is
     empty whenever close_until returns.
   * [log] is instrumentation only (no operation reads it): for every element created by [define]
     the function and the rooted arguments it was created for.
   * usize saturation of weights, u32 overflow of ids: not modelled. *)
From Coq Require Import List NArith Bool.
Import ListNotations.
Local Open Scope N_scope.

(* ---------- flat rules ---------- *)
Inductive frel := FRel (r : N) | FTySet (t : N).
Inductive age := New | Old | All.
Record fatom := { fa_rel : frel; fa_args : list N (* variables *); fa_age : age }.
Inductive fconc :=
  | CRel (r : N) (args : list N)      (* insert the tuple *)
  | CEq (x y : N)                     (* equate *)
  | CDef (f : N) (args : list N).     (* request that f(args) be defined *)
Record frule := { fr_prem : list fatom; fr_conc : list fconc }.

(* fp_arity: (relation, arity incl. result column, is function).
   fp_restype: for functions, the type of the result (needed to put a fresh element into its type set).
   fp_rules: the flat list of all *emitted* sub-rules, each atom with its age.  The implicit
   functionality rules are among them. *)
Record fprogram := {
  fp_arity : list (N * N * bool);
  fp_restype : list (N * N);
  fp_rules : list frule
}.

Definition frel_eqb (a b : frel) : bool :=
  match a, b with
  | FRel x, FRel y => N.eqb x y
  | FTySet x, FTySet y => N.eqb x y
  | _, _ => false
  end.

(* ---------- states ---------- *)
Definition row := list N.
Definition fact := (frel * row)%type.

Fixpoint row_eqb (a b : row) : bool :=
  match a, b with
  | [], [] => true
  | x :: a', y :: b' => N.eqb x y && row_eqb a' b'
  | _, _ => false
  end.
Definition fact_eqb (a b : fact) : bool := frel_eqb (fst a) (fst b) && row_eqb (snd a) (snd b).
Definition mem (x : fact) (l : list fact) : bool := existsb (fact_eqb x) l.

Record state := {
  rep : N -> N;                        (* element -> root of its class *)
  old : list fact;
  new : list fact;
  pending : list (N * row);            (* requested definitions f(args) *)
  next_id : N;
  log : list (N * N * row)             (* instrumentation: (element, f, rooted args) *)
}.

Definition init : state :=
  {| rep := fun x => x; old := []; new := []; pending := []; next_id := 0; log := [] |}.

Definition set_new (s : state) (n : list fact) : state :=
  {| rep := rep s; old := old s; new := n; pending := pending s; next_id := next_id s; log := log s |}.
Definition set_pending (s : state) (p : list (N * row)) : state :=
  {| rep := rep s; old := old s; new := new s; pending := p; next_id := next_id s; log := log s |}.

Definition canon_fact (f : N -> N) (x : fact) : fact := (fst x, map f (snd x)).
Definition is_canon_b (f : N -> N) (x : fact) : bool := row_eqb (map f (snd x)) (snd x).

(* ---------- API ---------- *)
Definition new_el (ty : N) (s : state) : state * N :=
  let e := next_id s in
  ({| rep := rep s; old := old s; new := new s ++ [(FTySet ty, [e])]; pending := pending s;
      next_id := e + 1; log := log s |}, e).

(* insert_<r>: root the arguments; nothing happens if the row is present in new or old. *)
Definition insert (x : fact) (s : state) : state :=
  let y := canon_fact (rep s) x in
  if mem y (new s) || mem y (old s) then s else set_new s (new s ++ [y]).

(* equate_<t>: union, the left root wins. *)
Definition equate (a b : N) (s : state) : state :=
  let ra := rep s a in
  let rb := rep s b in
  if N.eqb ra rb then s
  else {| rep := fun x => let r := rep s x in if N.eqb r rb then ra else r;
          old := old s; new := new s; pending := pending s; next_id := next_id s; log := log s |}.

(* t = args ++ [v] ? *)
Fixpoint split_last (args t : row) : option N :=
  match args, t with
  | [], [v] => Some v
  | a :: args', b :: t' => if N.eqb a b then split_last args' t' else None
  | _, _ => None
  end.
Fixpoint lookup_fun (f : N) (args : row) (l : list fact) : option N :=
  match l with
  | [] => None
  | (r, t) :: l' =>
      if frel_eqb r (FRel f) then
        match split_last args t with Some v => Some v | None => lookup_fun f args l' end
      else lookup_fun f args l'
  end.

Fixpoint assoc (l : list (N * N)) (k : N) : option N :=
  match l with
  | [] => None
  | (k', v) :: l' => if N.eqb k k' then Some v else assoc l' k
  end.
Definition restype (P : fprogram) (f : N) : N :=
  match assoc (fp_restype P) f with Some t => t | None => 0 end.

(* define_<f>: look f(args) up on roots (new first, then old); create a fresh element otherwise. *)
Definition define (P : fprogram) (f : N) (args : row) (s : state) : state * N :=
  let a := map (rep s) args in
  match lookup_fun f a (new s ++ old s) with
  | Some v => (s, v)
  | None =>
      let e := next_id s in
      let s1 := {| rep := rep s; old := old s; new := new s ++ [(FTySet (restype P f), [e])];
                   pending := pending s; next_id := e + 1; log := (e, f, a) :: log s |} in
      (insert (FRel f, a ++ [e]) s1, e)
  end.

(* ---------- matching: naive nested loops ---------- *)
Definition env := list (N * N).        (* variable -> element *)
Definition val (e : env) (x : N) : N := match assoc e x with Some v => v | None => 0 end.

Fixpoint bind (e : env) (args : list N) (t : row) : option env :=
  match args, t with
  | [], [] => Some e
  | x :: args', v :: t' =>
      match assoc e x with
      | Some v' => if N.eqb v v' then bind e args' t' else None
      | None => bind ((x, v) :: e) args' t'
      end
  | _, _ => None
  end.

Definition tbl (s : state) (a : age) : list fact :=
  match a with New => new s | Old => old s | All => new s ++ old s end.

Fixpoint matches (s : state) (prem : list fatom) (e : env) : list env :=
  match prem with
  | [] => [e]
  | a :: prem' =>
      flat_map (fun x : fact =>
                  if frel_eqb (fst x) (fa_rel a) then
                    match bind e (fa_args a) (snd x) with
                    | Some e' => matches s prem' e'
                    | None => []
                    end
                  else [])
               (tbl s (fa_age a))
  end.

(* ground conclusions, as pushed into the delta *)
Inductive gconc := GRel (r : N) (t : row) | GEq (a b : N) | GDef (f : N) (t : row).
Definition ground (sg : N -> N) (c : fconc) : gconc :=
  match c with
  | CRel r args => GRel r (map sg args)
  | CEq x y => GEq (sg x) (sg y)
  | CDef f args => GDef f (map sg args)
  end.

Definition fire (s : state) (ru : frule) : list gconc :=
  flat_map (fun e => map (ground (val e)) (fr_conc ru)) (matches s (fr_prem ru) []).
Definition collect (rules : list frule) (s : state) : list gconc := flat_map (fire s) rules.

Fixpoint grels (D : list gconc) : list fact :=
  match D with
  | [] => []
  | GRel r t :: D' => (FRel r, t) :: grels D'
  | _ :: D' => grels D'
  end.
Fixpoint geqs (D : list gconc) : list (N * N) :=
  match D with
  | [] => []
  | GEq a b :: D' => (a, b) :: geqs D'
  | _ :: D' => geqs D'
  end.
Fixpoint gdefs (D : list gconc) : list (N * row) :=
  match D with
  | [] => []
  | GDef f t :: D' => (f, t) :: gdefs D'
  | _ :: D' => gdefs D'
  end.

(* ---------- phases of one iteration ---------- *)
Definition move (s : state) : state :=
  {| rep := rep s; old := old s ++ new s; new := []; pending := pending s; next_id := next_id s;
     log := log s |}.

Definition equate_all (l : list (N * N)) (s : state) : state :=
  fold_left (fun s ab => equate (fst ab) (snd ab) s) l s.
Definition insert_all (l : list fact) (s : state) : state :=
  fold_left (fun s x => insert x s) l s.

(* remove every row that mentions a non-root and re-insert it (rooted) *)
Definition canonicalize (s : state) : state :=
  let bad := filter (fun x => negb (is_canon_b (rep s) x)) (old s ++ new s) in
  let s0 := {| rep := rep s;
               old := filter (is_canon_b (rep s)) (old s);
               new := filter (is_canon_b (rep s)) (new s);
               pending := pending s; next_id := next_id s; log := log s |} in
  insert_all bad s0.

(* one loop body up to the evaluation of the condition *)
Definition exec_iter (P : fprogram) (s : state) : state :=
  let D := collect (fp_rules P) s in
  let s1 := move s in
  let s2 := equate_all (geqs D) s1 in
  let s3 := canonicalize s2 in
  let s4 := insert_all (grels D) s3 in
  set_pending s4 (pending s4 ++ gdefs D).

Definition apply_defs (P : fprogram) (s : state) : state :=
  fold_left (fun s fa => fst (define P (fst fa) (snd fa) s)) (pending s) (set_pending s []).

Definition is_dirty (s : state) : bool := match new s with [] => false | _ => true end.

(* ---------- close_until ---------- *)
Fixpoint exec_loop (fuel : nat) (P : fprogram) (cond : state -> bool) (s : state)
  : option (state * bool) :=
  match fuel with
  | O => None
  | S k =>
      let s1 := exec_iter P s in
      if cond s1 then Some (apply_defs P s1, true)
      else if is_dirty s1 then exec_loop k P cond s1
      else let s2 := apply_defs P s1 in
           if is_dirty s2 then exec_loop k P cond s2 else Some (s2, false)
  end.

Definition exec_close_until (fuel : nat) (P : fprogram) (cond : state -> bool) (s : state)
  : option (state * bool) :=
  let s0 := canonicalize s in
  if cond s0 then Some (s0, true) else exec_loop fuel P cond (set_pending s0 []).

Definition exec_close (fuel : nat) (P : fprogram) (s : state) : option state :=
  match exec_close_until fuel P (fun _ => false) s with
  | Some (s', _) => Some s'
  | None => None
  end.

(* number of iterations performed (for the correspondence): same recursion, counting *)
Fixpoint count_loop (fuel : nat) (P : fprogram) (cond : state -> bool) (s : state) : option N :=
  match fuel with
  | O => None
  | S k =>
      let s1 := exec_iter P s in
      if cond s1 then Some 1
      else
        let s' := if is_dirty s1 then s1 else apply_defs P s1 in
        if is_dirty s' then match count_loop k P cond s' with Some n => Some (n + 1) | None => None end
        else Some 1
  end.
