(* Engine/ModelW.v -- the engine model of Model.v WITH element weights and the union rule of the generated
   `equate_<type>`.  Definitions only, no proofs (FactsW.v).  A thin wrapper: a weighted state is a Model.state plus
   the weight vector; every operation below is the operation of Model.v on the [st] component (lemmas st_... of FactsW.v), the only
   behavioural difference is WHICH of the two roots survives a union.

   What the generated code does (rust_gen/mod.rs, cf. coq/UF/Model.v [equate_el] for the exact vector-level model):

     equate_<t>(lhs, rhs):  lhs = root(lhs); rhs = root(rhs); if lhs == rhs return;
                            (root, child) = if weights[lhs] >= weights[rhs] { (lhs, rhs) } else { (rhs, lhs) };
                            union_roots_into(child, root); remove child from the type sets; uprooted.push(child)
     insert_<r>(els):       root every argument; return if the row is present; insert into the NEW index copies;
                            weights[el_j] = weights[el_j].saturating_add(<R>_WEIGHT)   for every column j
     canonicalize:          for every stored row that mentions an uprooted element: remove it from the copies it is in;
                            weights[el_j] = weights[el_j].saturating_sub(<R>_WEIGHT) for every column j (the row as stored);
                            insert_<r>(row)
     new_<t>_internal:      weights.push(0)
   Type sets carry no weight.  The weight constants `const <REL>_WEIGHT: usize = n;` are read from the emitted module by
   translate/fprog.py ([wtable]).

   LEVEL OF EXACTNESS REACHED (the tie checks/engine_tie.py compares this model with the emitted code after EVERY
   iteration of close_until, i.e. at every point where the condition is evaluated, in lockstep):
     compared up to a renaming of elements that fixes the caller's handles (Sem.Iso.iso_map_b on the map found by a
     python search, sound by Sem.FactsIso.iso_map_b_sound; verdict in Coq):
       the partition, per relation its rows AND its OLD rows (hence also the new rows), per type the old and the new
       type set, and the weight of every root;
     compared exactly (plain numbers): the iteration count and the result of every close/close_until, the number of
       elements per type at every point, weight 0 of every non-root, stored weights = weights recomputed from the
       rows (model side), iteration count <= iter_bound for programs without `!`.
     not compared: raw element ids (the model enumerates matches in list order, the emitted loops in index order, so
       apply_func_defs allocates ids in a different order; the model has ONE id counter, the code one per type), the
       pending definition list (a local of close_until, not observable), the order of anything.
   The one thing the model cannot compute by itself is the outcome of a union of two roots of EQUAL weight: the code
   keeps the root of the first argument of that equate_ call, and which call comes first depends on the order in which
   the nested loops push equalities -- i.e. on raw ids -- while the new/old split after the iteration depends on which
   root survived (the rows of the absorbed root are re-inserted as new).  The model is therefore parametrised by a
   tie-break oracle [tiebreak]; the generated code is the instance "first argument" for API calls (exactly,
   [tb_first]) and SOME instance inside close_until.  The check searches, iteration by iteration, for the preference
   list that reproduces the implementation's state (python port of this file as a search aid) and Coq then replays
   the run with that advice (RunW.run_engineW) and judges every state.  All theorems of FactsW.v / Props_Tie.v hold
   for EVERY oracle, so nothing is assumed about the advice.  When no union of an iteration had equal weights the
   advice is irrelevant and the model is deterministic; in the generated corpus about 1 merging iteration in 10 has a
   tie and about a third of those need advice.
   Not determined by the model either, and therefore skipped (counted) by the tie: a define_ or a condition f(h..) = h'
   evaluated while f(args) has several values in one table (which one the generated f(..) returns depends on raw ids).

   Deviations kept from Model.v: untyped elements and one id counter; list-level tables; no uprooted list
   (canonicalizeW rewrites every row that mentions a non-root; it first removes ALL such rows -- subtracting their
   weights -- and then re-inserts them, the code does it row by row; the resulting weights are the same as long as no
   subtraction saturates, which the invariant "weight = sum over stored rows" excludes; the tie compares the weights
   of the implementation at every observation point); usize saturation of additions and u32 overflow are not modelled. *)
From Coq Require Import List NArith Bool.
From Engine Require Import Model.
Import ListNotations.
Local Open Scope N_scope.

(* relation number -> <REL>_WEIGHT *)
Definition wtable := list (N * N).
Definition relw (W : wtable) (r : frel) : N :=
  match r with
  | FRel x => match assoc W x with Some w => w | None => 0 end
  | FTySet _ => 0
  end.

Record wstate := { st : state; wt : N -> N }.

Definition initW : wstate := {| st := init; wt := fun _ => 0 |}.

Definition bump (w : N) (f : N -> N) (e : N) : N -> N := fun x => if N.eqb x e then f x + w else f x.
(* N subtraction truncates at 0: saturating_sub *)
Definition drop (w : N) (f : N -> N) (e : N) : N -> N := fun x => if N.eqb x e then f x - w else f x.
Definition add_weights (w : N) (t : row) (f : N -> N) : N -> N := fold_left (bump w) t f.
Definition sub_weights (w : N) (t : row) (f : N -> N) : N -> N := fold_left (drop w) t f.

(* [tb ra rb = true]: when the roots ra (of the first argument) and rb (of the second) have equal weights, rb survives. *)
Definition tiebreak := N -> N -> bool.
Definition tb_first : tiebreak := fun _ _ => false.          (* the generated equate_: the first argument's root *)
Definition memN (x : N) (l : list N) : bool := existsb (N.eqb x) l.
Definition tb_pref (pref : list N) : tiebreak := fun ra rb => memN rb pref && negb (memN ra pref).

(* does the second root survive? *)
Definition second_wins (tb : tiebreak) (s : wstate) (ra rb : N) : bool :=
  N.ltb (wt s ra) (wt s rb) || (N.eqb (wt s ra) (wt s rb) && tb ra rb).

(* equate_<t>: [Model.equate x y] keeps the root of x *)
Definition equateW (tb : tiebreak) (a b : N) (s : wstate) : wstate :=
  let ra := rep (st s) a in
  let rb := rep (st s) b in
  if N.eqb ra rb then s
  else if second_wins tb s ra rb then {| st := equate b a (st s); wt := wt s |}
       else {| st := equate a b (st s); wt := wt s |}.

Definition new_elW (ty : N) (s : wstate) : wstate * N :=
  let (s', e) := new_el ty (st s) in ({| st := s'; wt := wt s |}, e).

(* insert_<r>: the weights of the rooted arguments grow iff the row was absent *)
Definition insertW (W : wtable) (x : fact) (s : wstate) : wstate :=
  let y := canon_fact (rep (st s)) x in
  if mem y (new (st s)) || mem y (old (st s)) then s
  else {| st := insert x (st s); wt := add_weights (relw W (fst x)) (snd y) (wt s) |}.

Definition defineW (P : fprogram) (W : wtable) (f : N) (args : row) (s : wstate) : wstate * N :=
  let a := map (rep (st s)) args in
  match lookup_fun f a (new (st s) ++ old (st s)) with
  | Some v => (s, v)
  | None =>
      let e := next_id (st s) in
      let s1 := {| rep := rep (st s); old := old (st s); new := new (st s) ++ [(FTySet (restype P f), [e])];
                   pending := pending (st s); next_id := e + 1; log := (e, f, a) :: log (st s) |} in
      (insertW W (FRel f, a ++ [e]) {| st := s1; wt := wt s |}, e)
  end.

Definition equate_allW (tb : tiebreak) (l : list (N * N)) (s : wstate) : wstate :=
  fold_left (fun s ab => equateW tb (fst ab) (snd ab) s) l s.
Definition insert_allW (W : wtable) (l : list fact) (s : wstate) : wstate :=
  fold_left (fun s x => insertW W x s) l s.

Definition canonicalizeW (W : wtable) (s : wstate) : wstate :=
  let bad := filter (fun x => negb (is_canon_b (rep (st s)) x)) (old (st s) ++ new (st s)) in
  let s0 := {| st := {| rep := rep (st s);
                        old := filter (is_canon_b (rep (st s))) (old (st s));
                        new := filter (is_canon_b (rep (st s))) (new (st s));
                        pending := pending (st s); next_id := next_id (st s); log := log (st s) |};
               wt := fold_left (fun f x => sub_weights (relw W (fst x)) (snd x) f) bad (wt s) |} in
  insert_allW W bad s0.

(* one loop body up to the evaluation of the condition *)
Definition exec_iterW (P : fprogram) (W : wtable) (tb : tiebreak) (s : wstate) : wstate :=
  let D := collect (fp_rules P) (st s) in
  let s1 := {| st := move (st s); wt := wt s |} in
  let s2 := equate_allW tb (geqs D) s1 in
  let s3 := canonicalizeW W s2 in
  let s4 := insert_allW W (grels D) s3 in
  {| st := set_pending (st s4) (pending (st s4) ++ gdefs D); wt := wt s4 |}.

Definition apply_defsW (P : fprogram) (W : wtable) (s : wstate) : wstate :=
  fold_left (fun s fa => fst (defineW P W (fst fa) (snd fa) s)) (pending (st s))
            {| st := set_pending (st s) []; wt := wt s |}.

(* the oracle of the k-th iteration is the k-th entry of [adv]; past its end: tb_first *)
Definition adv_hd (adv : list tiebreak) : tiebreak := match adv with tb :: _ => tb | [] => tb_first end.

Fixpoint exec_loopW (fuel : nat) (P : fprogram) (W : wtable) (adv : list tiebreak) (cond : wstate -> bool)
  (s : wstate) : option (wstate * bool) :=
  match fuel with
  | O => None
  | S k =>
      let s1 := exec_iterW P W (adv_hd adv) s in
      if cond s1 then Some (apply_defsW P W s1, true)
      else if is_dirty (st s1) then exec_loopW k P W (tl adv) cond s1
      else let s2 := apply_defsW P W s1 in
           if is_dirty (st s2) then exec_loopW k P W (tl adv) cond s2 else Some (s2, false)
  end.

Definition exec_close_untilW (fuel : nat) (P : fprogram) (W : wtable) (adv : list tiebreak)
  (cond : wstate -> bool) (s : wstate) : option (wstate * bool) :=
  let s0 := canonicalizeW W s in
  if cond s0 then Some (s0, true)
  else exec_loopW fuel P W adv cond {| st := set_pending (st s0) []; wt := wt s0 |}.
