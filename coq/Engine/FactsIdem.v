(* Engine/FactsIdem.v -- C03 (second half): closing a clean closed state changes nothing. *)
From Coq Require Import List Arith NArith Bool Lia.
From Engine Require Import Model FactsBasic FactsInv FactsOps FactsClose FactsFam.
Import ListNotations.
Local Open Scope N_scope.
Arguments N.add : simpl never.
Arguments N.eqb : simpl never.

Lemma filter_all_true {X} (p : X -> bool) l : (forall x, In x l -> p x = true) -> filter p l = l.
Proof.
  induction l as [|x l IH]; intros H; cbn [filter]; [reflexivity|].
  rewrite (H x (or_introl eq_refl)). f_equal. apply IH. intros y Hy. apply H. right. exact Hy.
Qed.

Lemma filter_all_false {X} (p : X -> bool) l : (forall x, In x l -> p x = false) -> filter p l = [].
Proof.
  induction l as [|x l IH]; intros H; cbn [filter]; [reflexivity|].
  rewrite (H x (or_introl eq_refl)). apply IH. intros y Hy. apply H. right. exact Hy.
Qed.

Lemma state_eta s :
  {| rep := rep s; old := old s; new := new s; pending := pending s; next_id := next_id s; log := log s |} = s.
Proof. destruct s; reflexivity. Qed.

Lemma canonicalize_id s : Canon s -> canonicalize s = s.
Proof.
  intros [_ HC]. unfold canonicalize.
  assert (Hall : forall x, In x (old s ++ new s) -> is_canon_b (rep s) x = true).
  { intros x Hx. apply is_canon_b_spec. apply HC. exact Hx. }
  rewrite (filter_all_false (fun x => negb (is_canon_b (rep s) x)) (old s ++ new s)).
  2:{ intros x Hx. rewrite (Hall x Hx). reflexivity. }
  rewrite (filter_all_true (is_canon_b (rep s)) (old s)).
  2:{ intros x Hx. apply Hall. apply in_or_app. auto. }
  rewrite (filter_all_true (is_canon_b (rep s)) (new s)).
  2:{ intros x Hx. apply Hall. apply in_or_app. auto. }
  cbn [insert_all fold_left]. apply state_eta.
Qed.

Lemma move_id s : new s = [] -> move s = s.
Proof.
  intros Hn. unfold move. rewrite Hn, app_nil_r. rewrite <- Hn. apply state_eta.
Qed.

Lemma equate_id a b s : rep s a = rep s b -> equate a b s = s.
Proof. intros E. unfold equate. rewrite E, N.eqb_refl. reflexivity. Qed.

Lemma equate_all_id l : forall s, (forall a b, In (a, b) l -> rep s a = rep s b) -> equate_all l s = s.
Proof.
  induction l as [|[a b] l IH]; intros s H; cbn [equate_all fold_left fst snd]; [reflexivity|].
  rewrite (equate_id a b s (H a b (or_introl eq_refl))). apply IH. intros a' b' Hin. apply H. right. exact Hin.
Qed.

Lemma insert_id x s : In (canon_fact (rep s) x) (allf s) -> insert x s = s.
Proof.
  intros Hin. unfold insert. unfold allf in Hin. apply in_app_or in Hin.
  assert (E : mem (canon_fact (rep s) x) (new s) || mem (canon_fact (rep s) x) (old s) = true).
  { apply orb_true_iff. rewrite !mem_In. tauto. }
  rewrite E. reflexivity.
Qed.

Lemma insert_all_id l : forall s, (forall x, In x l -> In (canon_fact (rep s) x) (allf s)) -> insert_all l s = s.
Proof.
  induction l as [|x l IH]; intros s H; cbn [insert_all fold_left]; [reflexivity|].
  rewrite (insert_id x s (H x (or_introl eq_refl))). apply IH. intros y Hy. apply H. right. exact Hy.
Qed.

Lemma define_id P f t s : (exists v, In (FRel f, canon (rep s) t ++ [v]) (allf s)) -> fst (define P f t s) = s.
Proof.
  intros [v Hin]. destruct (define_cases P f t s) as [[w [_ E]]|[L _]]; [rewrite E; reflexivity|].
  exfalso. apply (lookup_fun_None _ _ _ L v). unfold allf, canon in Hin.
  apply in_app_or in Hin. apply in_or_app. tauto.
Qed.

Lemma defs_fold_id P l : forall s,
  (forall f t, In (f, t) l -> exists v, In (FRel f, canon (rep s) t ++ [v]) (allf s)) -> defs_fold P l s = s.
Proof.
  induction l as [|[f t] l IH]; intros s H; cbn [defs_fold fold_left fst snd]; [reflexivity|].
  rewrite (define_id P f t s (H f t (or_introl eq_refl))). apply IH. intros f' t' Hin. apply H. right. exact Hin.
Qed.

Section Idem.
  Variables (P : fprogram) (src : list frule).
  Hypothesis Snd : FamSound src (fp_rules P).

  (* in a closed state every collected conclusion already holds *)
  Lemma collected_hold s g : Closed src s -> In g (collect (fp_rules P) s) -> sholds s g.
  Proof.
    intros HC Hg. destruct (collect_sound _ _ _ Hg) as [ru' [sg [c [Hru' [Hm [Hc E]]]]]].
    destruct (Snd ru' Hru') as [ru [Hru [Ec Him]]]. subst g.
    apply (HC ru sg Hru (Him s sg Hm)). rewrite Ec. exact Hc.
  Qed.

  Lemma exec_iter_closed s : Canon s -> Clean s -> Closed src s ->
    exec_iter P s = set_pending s (gdefs (collect (fp_rules P) s)).
  Proof.
    intros HC [Hn Hp] Hcl. unfold exec_iter. set (D := collect (fp_rules P) s).
    assert (HD : forall g, In g D -> sholds s g) by (intros g Hg; apply collected_hold; assumption).
    rewrite (move_id s Hn).
    rewrite (equate_all_id (geqs D) s).
    2:{ intros a b Hin. apply in_geqs in Hin. apply (HD _ Hin). }
    rewrite (canonicalize_id s HC).
    rewrite (insert_all_id (grels D) s).
    2:{ intros x Hx. destruct (in_grels_inv _ _ Hx) as [r [t [-> Hg]]]. apply (HD _ Hg). }
    rewrite Hp. reflexivity.
  Qed.

  (* C03: a clean closed state is a fixed point of close *)
  Theorem close_idem n s :
    Canon s -> Clean s -> Closed src s ->
    exec_close_until (S n) P (fun _ => false) s = Some (s, false).
  Proof.
    intros HC HCl Hcl. destruct HCl as [Hn Hp]. unfold exec_close_until.
    rewrite (canonicalize_id s HC).
    assert (Es : set_pending s [] = s) by (rewrite <- Hp; destruct s; reflexivity).
    rewrite Es. cbn [exec_loop].
    rewrite (exec_iter_closed s HC (conj Hn Hp) Hcl). set (D := collect (fp_rules P) s).
    assert (Ed : is_dirty (set_pending s (gdefs D)) = false) by (unfold is_dirty; cbn [set_pending new]; rewrite Hn; reflexivity).
    rewrite Ed.
    assert (Ea : apply_defs P (set_pending s (gdefs D)) = s).
    { unfold apply_defs. cbn [set_pending pending]. fold (defs_fold P (gdefs D) (set_pending (set_pending s (gdefs D)) [])).
      assert (E2 : set_pending (set_pending s (gdefs D)) [] = s) by (rewrite <- Es at 2; reflexivity).
      rewrite E2. apply defs_fold_id. intros f t Hin. apply in_gdefs in Hin.
      apply (collected_hold s _ Hcl Hin). }
    rewrite Ea. unfold is_dirty. rewrite Hn. reflexivity.
  Qed.
End Idem.

(* the hypotheses of close_idem are what a clean return of close_until provides *)
Corollary close_idem_after_close P src n fuel cond s r :
  wf_rules (fp_rules P) -> FamOK src (fp_rules P) -> FamSound src (fp_rules P) ->
  Reachable P s -> exec_close_until fuel P cond s = Some (r, false) ->
  exec_close_until (S n) P (fun _ => false) r = Some (r, false).
Proof.
  intros Hwf Fam Snd HR H.
  destruct (cu_false P src Hwf Fam cond fuel s r HR H) as [Hcl [HCl [HC _]]].
  apply (close_idem P src Snd n r HC HCl Hcl).
Qed.

(* the formulation asked for: clean + canonical + the semi-naive invariants *)
Corollary close_idem_inv P src n s :
  FamSound src (fp_rules P) -> Canon s -> Clean s -> Inv_sn src s -> Inv_e src s ->
  exec_close_until (S n) P (fun _ => false) s = Some (s, false).
Proof.
  intros Snd HC HCl HI HE. apply (close_idem P src Snd n s HC HCl). apply clean_closed; assumption.
Qed.

(* ---------- vocabulary for the statement of history independence (not proved in this library) ---------- *)
Definition dmap (h : N -> N) (d : dfact) : dfact :=
  match d with
  | DRow r t => DRow r (map h t)
  | DEq a b => DEq (h a) (h b)
  | DDef f t => DDef f (map h t)
  end.
Definition same_set {X} (a b : list X) : Prop := incl a b /\ incl b a.

(* s2 is s1 renamed along h: same partition, same rows modulo the partitions, h hits every class *)
Definition iso_via (h : N -> N) (s1 s2 : state) : Prop :=
  (forall x y, x < next_id s1 -> y < next_id s1 ->
     (rep s1 x = rep s1 y <-> rep s2 (h x) = rep s2 (h y))) /\
  (forall r t, ids_lt (next_id s1) t ->
     (In (r, canon (rep s1) t) (allf s1) <-> In (r, canon (rep s2) (map h t)) (allf s2))) /\
  (forall y, y < next_id s2 -> exists x, x < next_id s1 /\ rep s2 (h x) = rep s2 y).
