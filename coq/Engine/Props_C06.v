(* Props_C06.v -- without CDef conclusions close_until terminates within iter_bound iterations and
   allocates no ids.   iter_bound P s = c*(U+2) + U + 2,  c = number of classes of s,
   U = sum of c^arity over the relations (incl. type sets) that occur in s or in a conclusion. *)
From Coq Require Import List NArith Bool.
From Engine Require Import Model FactsBasic FactsInv FactsOps FactsClose FactsIds FactsTerm FactsRoots FactsFam FactsRun Run ExSemilattice.
Import ListNotations.
Local Open Scope N_scope.

Theorem C06_close_terminates : forall P cond s,
  wf_rules (fp_rules P) -> no_defs P -> WF s ->
  exec_close_until (iter_bound P s) P cond s <> None.
Proof. exact close_terminates. Qed.
Print Assumptions C06_close_terminates.

Theorem C06_close_terminates_reachable : forall P A cond s,
  wf_rules (fp_rules P) -> no_defs P -> Reach P A s ->
  exec_close_until (iter_bound P s) P cond s <> None.
Proof. exact close_terminates_reachable. Qed.
Print Assumptions C06_close_terminates_reachable.

Theorem C06_no_new_ids : forall P cond fuel s r b,
  wf_rules (fp_rules P) -> no_defs P -> Idem s ->
  exec_close_until fuel P cond s = Some (r, b) ->
  next_id r = next_id s /\ (nclasses r <= nclasses s)%nat.
Proof. exact no_new_ids. Qed.
Print Assumptions C06_no_new_ids.

(* per-type form ("the number of elements of every type ... is at most what it was before"): every
   representative after close_until was a representative before, hence for any classification [ty]
   of ids into types (an id's type is fixed at allocation, and none is allocated) the number of
   classes with a representative of that type does not grow *)
Theorem C06_roots_subset : forall P cond fuel s r b,
  wf_rules (fp_rules P) -> no_defs P -> Idem s ->
  exec_close_until fuel P cond s = Some (r, b) ->
  forall x, is_root r x = true -> is_root s x = true.
Proof. exact roots_subset. Qed.
Print Assumptions C06_roots_subset.

Theorem C06_no_new_ids_per_type : forall P cond fuel s r b (ty : N -> bool),
  wf_rules (fp_rules P) -> no_defs P -> Idem s ->
  exec_close_until fuel P cond s = Some (r, b) ->
  next_id r = next_id s /\ (nclasses_of ty r <= nclasses_of ty s)%nat.
Proof. exact no_new_ids_per_type. Qed.
Print Assumptions C06_no_new_ids_per_type.

Theorem C06_reach_WF : forall P A s, wf_rules (fp_rules P) -> Reach P A s -> WF s.
Proof. exact Reach_WF. Qed.
Print Assumptions C06_reach_WF.

(* ---- non-vacuity: the poset part of the semilattice program (no `!`) ---- *)
Example C06_ex_hyps :
  wf_rules (fp_rules poset) /\ no_defs poset /\ Reachable poset poset_st.
Proof.
  assert (Hwf : wf_rules (fp_rules poset)) by (apply wf_rules_b_sound; vm_compute; reflexivity).
  split; [exact Hwf|]. split; [apply no_defs_b_sound; vm_compute; reflexivity|].
  apply run_reachable; [exact Hwf | vm_compute; reflexivity].
Qed.

(* 3 classes, relations: type set (arity 1) and le (arity 2): U = 3 + 9, bound = 3*14 + 12 + 2 *)
Example C06_ex_bound : iter_bound poset poset_st = 56%nat.
Proof. vm_compute. reflexivity. Qed.

(* the model needs 2 iterations, ends with 2 classes and the same next_id *)
Example C06_ex_run :
  match exec_close_until (iter_bound poset poset_st) poset (fun _ => false) poset_st with
  | Some (r, false) => N.eqb (next_id r) 3 && Nat.eqb (nclasses r) 2
  | _ => false
  end = true /\ count_loop 56 poset (fun _ => false) (canonicalize poset_st) = Some 2.
Proof. vm_compute. split; reflexivity. Qed.

(* per-type count on the same run: ids 0..2 of one type; classifying by parity, the even ids {0,2}
   hold 2 classes before and at most 2 after *)
Example C06_ex_per_type :
  match exec_close_until (iter_bound poset poset_st) poset (fun _ => false) poset_st with
  | Some (r, _) => Nat.leb (nclasses_of N.even r) (nclasses_of N.even poset_st)
                   && Nat.eqb (nclasses_of N.even poset_st) 2
  | None => false
  end = true.
Proof. vm_compute. reflexivity. Qed.
