(* Engine/FactsRoots.v -- C06, per-type form: without CDef conclusions every representative after
   close_until was a representative before, so for ANY classification of ids into types (an id's type
   is fixed when it is allocated and no id is allocated) the number of classes of each type does not
   grow. *)
From Coq Require Import List Arith NArith Bool Lia.
From Engine Require Import Model FactsBasic FactsInv FactsOps FactsClose FactsIds FactsTerm.
Import ListNotations.
Local Open Scope N_scope.
Arguments N.add : simpl never.
Arguments N.eqb : simpl never.

Lemma iter_roots_subset P s : wf_rules (fp_rules P) -> Idem s ->
  forall x, is_root (exec_iter P s) x = true -> is_root s x = true.
Proof.
  intros Hwf Hid x Hx. pose proof (exec_iter_astep P s Hwf Hid) as St.
  unfold is_root in *. apply N.eqb_eq in Hx. apply N.eqb_eq.
  apply (rep_root _ _ _ _ St). exact Hx.
Qed.

Lemma loop_roots_subset P cond fuel : wf_rules (fp_rules P) -> no_defs P -> forall s r b,
  Idem s -> pending s = [] -> exec_loop fuel P cond s = Some (r, b) ->
  forall x, is_root r x = true -> is_root s x = true.
Proof.
  intros Hwf Hnd. induction fuel as [|k IH]; intros s r b Hid Hp H; cbn [exec_loop] in H; [discriminate|].
  pose proof (iter_pending_nil P Hwf Hnd s Hid Hp) as Hp1.
  pose proof (iter_roots_subset P s Hwf Hid) as Hc1.
  pose proof (exec_iter_astep P s Hwf Hid) as St. pose proof (rep_idem _ _ _ _ St) as Hid1.
  rewrite (apply_defs_nil P _ Hp1) in H.
  assert (Es : set_pending (exec_iter P s) [] = exec_iter P s).
  { destruct (exec_iter P s) as [a1 a2 a3 a4 a5 a6]. cbn [pending] in Hp1. subst a4. reflexivity. }
  rewrite Es in H.
  destruct (cond (exec_iter P s)).
  - inversion H; subst. exact Hc1.
  - destruct (is_dirty (exec_iter P s)).
    + intros x Hx. apply Hc1. exact (IH _ _ _ Hid1 Hp1 H x Hx).
    + inversion H; subst. exact Hc1.
Qed.

Theorem roots_subset P cond fuel s r b :
  wf_rules (fp_rules P) -> no_defs P -> Idem s ->
  exec_close_until fuel P cond s = Some (r, b) ->
  forall x, is_root r x = true -> is_root s x = true.
Proof.
  intros Hwf Hnd Hid H. unfold exec_close_until in H.
  destruct (canonicalize_fields s) as [Fr [_ [Fn _]]].
  destruct (cond (canonicalize s)).
  - inversion H; subst. intros x Hx. unfold is_root in *. rewrite Fr in Hx. exact Hx.
  - assert (Hid0 : Idem (set_pending (canonicalize s) [])).
    { intros x. cbn [set_pending rep]. rewrite Fr. apply Hid. }
    intros x Hx. pose proof (loop_roots_subset P cond fuel Hwf Hnd _ r b Hid0 eq_refl H x Hx) as H0.
    unfold is_root in *. cbn [set_pending rep] in H0. rewrite Fr in H0. exact H0.
Qed.

(* number of classes whose representative satisfies [ty] *)
Definition nclasses_of (ty : N -> bool) (s : state) : nat := length (filter ty (roots s)).

Lemma filter_filter_comm {X} (p q : X -> bool) l :
  filter p (filter q l) = filter (fun x => q x && p x) l.
Proof.
  induction l as [|x l IH]; cbn [filter]; [reflexivity|].
  destruct (q x); cbn [filter andb]; [destruct (p x); rewrite IH; reflexivity | exact IH].
Qed.

Theorem no_new_ids_per_type P cond fuel s r b (ty : N -> bool) :
  wf_rules (fp_rules P) -> no_defs P -> Idem s ->
  exec_close_until fuel P cond s = Some (r, b) ->
  next_id r = next_id s /\ (nclasses_of ty r <= nclasses_of ty s)%nat.
Proof.
  intros Hwf Hnd Hid H. destruct (no_new_ids P cond fuel s r b Hwf Hnd Hid H) as [En _].
  split; [exact En|]. unfold nclasses_of, roots. rewrite En, !filter_filter_comm.
  apply filter_length_le. intros x Hx. apply andb_true_iff in Hx. destruct Hx as [Hx Ht].
  apply andb_true_iff. split; [|exact Ht].
  exact (roots_subset P cond fuel s r b Hwf Hnd Hid H x Hx).
Qed.
