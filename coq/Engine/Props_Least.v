(* Props_Least.v -- the least-model characterisation of close() and what follows from it
   (C02 close_least, C03 history independence, C07 resumption up to isomorphism).

   Hypotheses beyond those of C01 (wf_rules, FamOK), and how the harness discharges them:
     FamErase src em     every emitted sub-rule contains, up to ages, the premise of a source rule with the same
                         conclusions (FactsLeast.emit_FamErase / func_FamErase for the intended families);
     WellTyped P s       FunAll (declared functions are functional on every argument tuple), ResTyped (result
                         columns of function rows are in the function's result type), LogFun (only declared
                         functions were defined) -- facts that the untyped model does not track and that hold
                         by typing in the generated code; decidable: FactsLeastB.well_typed_b;
     AtomsOnly A s       (history independence only) the asserted facts mention elements created by new_ only:
                         elements returned by define_ are not passed to later API calls;
                         decidable: atoms_only_b;
     SameFacts A1 A2 g12 g21   the two histories assert the same SET of facts up to the renaming g12/g21 of the
                         caller's elements (order, duplicates and the placement of closes are irrelevant);
                         decidable: same_facts_b.  Asserted facts of a Run.v history: FactsLeastB.run_A. *)
From Coq Require Import List NArith Bool.
From Engine Require Import Model FactsBasic FactsInv FactsOps FactsClose FactsSound FactsIds FactsFam FactsIdem
  Run FactsRun FactsStep FactsLeast FactsIso FactsLeastB ExSemilattice ExLeast.
Import ListNotations.
Local Open Scope N_scope.

(* invariants of reachable states used below: log well-formed, creating rows present, asserted facts hold *)
Theorem Least_Reach_RInv : forall P A s, wf_rules (fp_rules P) -> Reach P A s -> RInv A s.
Proof. exact Reach_RInv. Qed.
Print Assumptions Least_Reach_RInv.

(* completeness: a canonical, closed, well-typed state in which the assertions hold under h and in which h
   sends every logged element to the value of its term satisfies everything derivable *)
Theorem Least_hom_complete : forall P A L s2 h,
  Canon s2 -> Closed (fp_rules P) s2 -> FunAll P s2 -> ResTyped P s2 ->
  (forall d, In d A -> dholds s2 h d) ->
  (forall e f a, In (e, f, a) L -> is_function P f = true /\
     forall v, In (FRel f, canon (rep s2) (map h a) ++ [v]) (allf s2) -> rep s2 (h e) = v) ->
  forall d, Derivable P A L d -> dholds s2 h d.
Proof. exact hom_complete. Qed.
Print Assumptions Least_hom_complete.

(* close_least: in a closed reachable state exactly the derivable rows and equalities hold (soundness is
   C02_sound); derivable definedness facts hold *)
Theorem Least_close_least : forall P A s,
  wf_rules (fp_rules P) -> Reach P A s -> Canon s -> Closed (fp_rules P) s -> WellTyped P s ->
  (forall r t, Derivable P A (log s) (DRow r t) <-> In (r, canon (rep s) t) (allf s)) /\
  (forall x y, Derivable P A (log s) (DEq x y) <-> rep s x = rep s y) /\
  (forall f t, Derivable P A (log s) (DDef f t) -> exists v, In (FRel f, canon (rep s) t ++ [v]) (allf s)).
Proof. exact close_least. Qed.
Print Assumptions Least_close_least.

Theorem Least_Closed_erase : forall src em s, FamErase src em -> Closed src s -> Closed em s.
Proof. exact Closed_erase. Qed.
Print Assumptions Least_Closed_erase.

(* history independence, declaratively: mutually inverse homomorphisms that extend the renaming *)
Theorem Least_history_indep : forall P A1 A2 s1 s2 g12 g21,
  wf_rules (fp_rules P) -> Reach P A1 s1 -> Reach P A2 s2 ->
  Canon s1 -> Canon s2 -> Closed (fp_rules P) s1 -> Closed (fp_rules P) s2 ->
  WellTyped P s1 -> WellTyped P s2 -> AtomsOnly A1 s1 -> AtomsOnly A2 s2 ->
  SameFacts A1 A2 g12 g21 ->
  Iso_states (fun x => logged s1 x = false) g12 s1 s2.
Proof. exact history_indep. Qed.
Print Assumptions Least_history_indep.

Theorem Least_iso_to_via : forall P A2 s1 s2 h12 h21,
  wf_rules (fp_rules P) -> Reach P A2 s2 -> WF s1 -> Canon s1 -> Canon s2 ->
  hom h12 s1 s2 -> hom h21 s2 s1 ->
  (forall x, x < next_id s1 -> rep s1 (h21 (h12 x)) = rep s1 x) ->
  (forall y, y < next_id s2 -> rep s2 (h12 (h21 y)) = rep s2 y) -> iso_via h12 s1 s2.
Proof. exact iso_to_via. Qed.
Print Assumptions Least_iso_to_via.

(* two continuations of one reachable state *)
Theorem Least_resume_iso : forall P A s r1 r2,
  wf_rules (fp_rules P) -> Reach P A s -> Reach P A r1 -> Reach P A r2 -> stp s r1 -> stp s r2 ->
  Canon r1 -> Canon r2 -> Closed (fp_rules P) r1 -> Closed (fp_rules P) r2 -> WellTyped P r1 -> WellTyped P r2 ->
  exists h, (forall e, e < next_id s -> rep r2 (h e) = rep r2 e) /\ iso_via h r1 r2.
Proof. exact resume_iso. Qed.
Print Assumptions Least_resume_iso.

(* the state computed from a Run.v history is reachable with the computed list of assertions *)
Theorem Least_run_reach_A : forall fuel P calls, wf_rules (fp_rules P) -> calls_ok 0 calls = true ->
  Reach P (run_A fuel P calls) (rs_state (run_state fuel P calls)).
Proof. exact run_reach_A. Qed.
Print Assumptions Least_run_reach_A.

Theorem Least_well_typed_b_sound : forall P s, well_typed_b P s = true -> WellTyped P s.
Proof. exact well_typed_b_sound. Qed.
Print Assumptions Least_well_typed_b_sound.

(* ---- non-vacuity: the semilattice program ---- *)
(* the hypotheses of history independence hold for: [a,b,c; a<=b; b<=c; close] and
   [c,b,a; b<=c; close; a<=b; b<=c; close] (other creation order, a duplicate, an intermediate close) *)
Example Least_ex_hyps :
  (Reach semi Ai1 ri1 /\ Canon ri1 /\ Closed (fp_rules semi) ri1 /\ WellTyped semi ri1 /\ AtomsOnly Ai1 ri1) /\
  (Reach semi Ai2 ri2 /\ Canon ri2 /\ Closed (fp_rules semi) ri2 /\ WellTyped semi ri2 /\ AtomsOnly Ai2 ri2) /\
  SameFacts Ai1 Ai2 swap02 swap02 /\ FamErase semi_src (fp_rules semi).
Proof. exact (conj hi1_hyps (conj hi2_hyps (conj hi_same semi_FamErase))). Qed.

Example Least_ex_history_indep :
  exists h, (forall x, logged ri1 x = false -> h x = swap02 x) /\ iso_via h ri1 ri2.
Proof. exact ex_history_indep. Qed.

(* the two runs differ in ids (12 vs 21 allocated) and in iteration counts, and agree in shape *)
Example Least_ex_shape :
  iter_counts 40 semi hi1 = [Some 5] /\ iter_counts 40 semi hi2 = [Some 11; Some 3] /\
  length (allf ri1) = length (allf ri2) /\ nclasses_eq ri1 ri2 = true.
Proof. vm_compute. repeat split; reflexivity. Qed.

Example Least_ex_cu_resume : exists h,
  (forall e, e < next_id sr ->
     rep (st_of' (exec_close_until 40 semi (fun _ => false) sr)) (h e) =
     rep (st_of' (exec_close_until 40 semi (fun _ => false) sr)) e) /\
  iso_via h (st_of' (exec_close_until 40 semi (fun _ => false) (st_of' (exec_close_until 40 semi c_meet sr))))
            (st_of' (exec_close_until 40 semi (fun _ => false) sr)).
Proof. exact ex_cu_resume. Qed.

Example Least_ex_close_least :
  (forall r t, Derivable semi Ai1 (log ri1) (DRow r t) <-> In (r, canon (rep ri1) t) (allf ri1)) /\
  (forall x y, Derivable semi Ai1 (log ri1) (DEq x y) <-> rep ri1 x = rep ri1 y) /\
  (forall f t, Derivable semi Ai1 (log ri1) (DDef f t) -> exists v, In (FRel f, canon (rep ri1) t ++ [v]) (allf ri1)).
Proof. exact ex_close_least. Qed.
