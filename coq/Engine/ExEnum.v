(* Engine/ExEnum.v -- a two-constructor enum program for the non-vacuity examples of Props_C15.v.
     type A;  enum T { Ka(), Kb(A) };  pred p(A);   rule { if p(x); then Kb(x)!; }
   types: A = 0, T = 1.  relations: p = 0, Ka = 1 (1 column: the result), Kb = 2 (2 columns). *)
From Coq Require Import List NArith Bool.
From Engine Require Import Model FactsBasic FactsInv FactsFam Run FactsEnum.
Import ListNotations.
Local Open Scope N_scope.

Definition tyA : N := 0.
Definition tyT : N := 1.
Definition rP : N := 0.
Definition Ka : N := 1.
Definition Kb : N := 2.

Definition en_E (t : N) : bool := N.eqb t tyT.
Definition en_ctor (f : N) : bool := N.eqb f Ka || N.eqb f Kb.

Definition en_rules : list frule :=
  [ {| fr_prem := [ {| fa_rel := FRel rP; fa_args := [0]; fa_age := All |} ]; fr_conc := [CDef Kb [0]] |} ].
Definition en_src : list frule := [func_rule Ka 0; func_rule Kb 1] ++ en_rules.
Definition en : fprogram :=
  {| fp_arity := [(rP, 1, false); (Ka, 1, true); (Kb, 2, true)];
     fp_restype := [(Ka, tyT); (Kb, tyT)];
     fp_rules := [func_sub Ka 0; func_sub Kb 1] ++ emit en_rules |}.

Lemma en_wf : wf_rules (fp_rules en).
Proof. apply wf_rules_b_sound. vm_compute. reflexivity. Qed.
Lemma en_FamOK : FamOK en_src (fp_rules en).
Proof.
  unfold en_src, en. cbn [fp_rules].
  apply (FamOK_app [func_rule Ka 0; func_rule Kb 1] [func_sub Ka 0; func_sub Kb 1]); [|apply emit_FamOK].
  apply (FamOK_app [func_rule Ka 0] [func_sub Ka 0] [func_rule Kb 1] [func_sub Kb 1]); apply FamOK_func.
Qed.
Lemma en_RulesOK : RulesOK en en_E en_ctor.
Proof. apply rules_ok_b_sound. vm_compute. reflexivity. Qed.

(* h0, h2 : A with p(h0), p(h2);  h1 := Ka();  equate(h0,h2);  close;  h3 := Kb(h0) (already defined) *)
Definition en_hist : list Ecall :=
  [ENew tyA; EInsert rP [0]; EDefine Ka []; ENew tyA; EInsert rP [2]; EEquate 0 2; EClose; EDefine Kb [0]].
Definition en_st : state := rs_state (run_state 20 en en_hist).
