(* Engine/ExLeast.v -- instances of the least-model theorems on the semilattice program, and the
   refutation of the (too strong) statement C03_history_indep_full of Props_C03.v. *)
From Coq Require Import List NArith Bool Lia.
From Engine Require Import Model FactsBasic FactsInv FactsOps FactsClose FactsSound FactsIds FactsTerm FactsFam FactsIdem
  Run FactsRun FactsStep FactsLeast FactsIso FactsLeastB ExSemilattice.
Import ListNotations.
Local Open Scope N_scope.

Lemma semi_FamErase : FamErase semi_src (fp_rules semi).
Proof.
  apply FamErase_cover with (em := semi_ref).
  - apply FamErase_app; [apply func_FamErase | apply emit_FamErase].
  - apply covers_b_sound. vm_compute. reflexivity.
Qed.

Definition canon_b (s : state) : bool := forallb (is_canon_b (rep s)) (allf s).

Lemma canon_b_sound s : Idem s -> canon_b s = true -> Canon s.
Proof.
  intros Hid H. split; [exact Hid|]. unfold canon_b in H. rewrite forallb_forall in H.
  intros x Hx. apply is_canon_b_spec. apply H. exact Hx.
Qed.

Definition st_of' (o : option (state * bool)) : state := match o with Some (r, _) => r | None => init end.
Lemma opt_eta (o : option (state * bool)) b : option_map snd o = Some b -> o = Some (st_of' o, b).
Proof. destruct o as [[r b']|]; cbn; intros H; inversion H; reflexivity. Qed.

(* ---------- C03: two histories for the chain a <= b <= c ---------- *)
(* history 1: a, b, c; a <= b; b <= c; close *)
Definition hi1 : list Ecall := [ENew El; ENew El; ENew El; EInsert le [0; 1]; EInsert le [1; 2]; EClose].
(* history 2: c, b, a (other creation order); b <= c; close; a <= b; b <= c again; close *)
Definition hi2 : list Ecall :=
  [ENew El; ENew El; ENew El; EInsert le [1; 0]; EClose; EInsert le [2; 1]; EInsert le [1; 0]; EClose].
Definition swap02 (x : N) : N := if N.eqb x 0 then 2 else if N.eqb x 2 then 0 else x.

Definition ri1 : state := st hi1.
Definition ri2 : state := st hi2.
Definition Ai1 : list dfact := run_A 40 semi hi1.
Definition Ai2 : list dfact := run_A 40 semi hi2.

Lemma hi_hyps (calls : list Ecall) :
  calls_ok 0 calls = true -> canon_b (st calls) = true -> closed_b (fp_rules semi) (st calls) = true ->
  well_typed_b semi (st calls) = true -> atoms_only_b (run_A 40 semi calls) (st calls) = true ->
  Reach semi (run_A 40 semi calls) (st calls) /\ Canon (st calls) /\ Closed (fp_rules semi) (st calls) /\
  WellTyped semi (st calls) /\ AtomsOnly (run_A 40 semi calls) (st calls).
Proof.
  intros H1 H2 H3 H4 H5. pose proof (run_reach_A 40 semi calls semi_wf H1) as HR.
  split; [exact HR|]. split; [|split; [|split]].
  - apply canon_b_sound; [apply (wf_idem _ (Reach_WF semi _ _ semi_wf HR)) | exact H2].
  - apply closed_b_sound; [exact semi_wf | exact H3].
  - apply well_typed_b_sound. exact H4.
  - apply atoms_only_b_sound. exact H5.
Qed.

Lemma hi1_hyps : Reach semi Ai1 ri1 /\ Canon ri1 /\ Closed (fp_rules semi) ri1 /\ WellTyped semi ri1 /\ AtomsOnly Ai1 ri1.
Proof. apply hi_hyps; vm_compute; reflexivity. Qed.
Lemma hi2_hyps : Reach semi Ai2 ri2 /\ Canon ri2 /\ Closed (fp_rules semi) ri2 /\ WellTyped semi ri2 /\ AtomsOnly Ai2 ri2.
Proof. apply hi_hyps; vm_compute; reflexivity. Qed.
Lemma hi_same : SameFacts Ai1 Ai2 swap02 swap02.
Proof. apply same_facts_b_sound. vm_compute. reflexivity. Qed.

Theorem ex_history_indep : exists h, (forall x, logged ri1 x = false -> h x = swap02 x) /\ iso_via h ri1 ri2.
Proof.
  destruct hi1_hyps as [R1 [C1 [L1 [W1 T1]]]]. destruct hi2_hyps as [R2 [C2 [L2 [W2 T2]]]].
  apply (history_indep_via semi Ai1 Ai2 ri1 ri2 swap02 swap02 semi_wf R1 R2 C1 C2 L1 L2 W1 W2 T1 T2 hi_same).
Qed.

(* ---------- C07: early return, then close, versus a direct close ---------- *)
Definition sr : state := st hist_two.
Definition Ar : list dfact := run_A 40 semi hist_two.
Notation o0 := (exec_close_until 40 semi c_meet sr).
Notation o1 := (exec_close_until 40 semi (fun _ => false) (st_of' o0)).
Notation o2 := (exec_close_until 40 semi (fun _ => false) sr).

Theorem ex_cu_resume : exists h,
  (forall e, e < next_id sr -> rep (st_of' o2) (h e) = rep (st_of' o2) e) /\ iso_via h (st_of' o1) (st_of' o2).
Proof.
  assert (HR : Reach semi Ar sr) by (apply run_reach_A; [exact semi_wf | vm_compute; reflexivity]).
  assert (E0 : o0 = Some (st_of' o0, true)) by (apply opt_eta; vm_compute; reflexivity).
  assert (E1 : o1 = Some (st_of' o1, false)) by (apply opt_eta; vm_compute; reflexivity).
  assert (E2 : o2 = Some (st_of' o2, false)) by (apply opt_eta; vm_compute; reflexivity).
  apply (cu_resume_iso semi semi_src Ar c_meet 40 sr (st_of' o0) true 40%nat 40%nat (st_of' o1) (st_of' o2)
           semi_wf semi_FamOK semi_FamErase HR E0 E1 E2).
  - apply well_typed_b_sound. vm_compute. reflexivity.
  - apply well_typed_b_sound. vm_compute. reflexivity.
Qed.

(* ---------- least model: what is derivable is what holds ---------- *)
Theorem ex_close_least :
  (forall r t, Derivable semi Ai1 (log ri1) (DRow r t) <-> In (r, canon (rep ri1) t) (allf ri1)) /\
  (forall x y, Derivable semi Ai1 (log ri1) (DEq x y) <-> rep ri1 x = rep ri1 y) /\
  (forall f t, Derivable semi Ai1 (log ri1) (DDef f t) -> exists v, In (FRel f, canon (rep ri1) t ++ [v]) (allf ri1)).
Proof.
  destruct hi1_hyps as [R1 [C1 [L1 [W1 _]]]]. apply (close_least semi Ai1 ri1 semi_wf R1 C1 L1 W1).
Qed.

(* ---------- the statement C03_history_indep_full (arbitrary renaming g) is false ---------- *)
Definition hist_indep_unconstrained : Prop :=
  forall P src, wf_rules (fp_rules P) -> FamOK src (fp_rules P) ->
  forall A1 A2 s1 s2 f1 f2 r1 r2 (g : N -> N),
    Reach P A1 s1 -> Reach P A2 s2 -> same_set (map (dmap g) A1) A2 ->
    exec_close_until f1 P (fun _ => false) s1 = Some (r1, false) ->
    exec_close_until f2 P (fun _ => false) s2 = Some (r2, false) ->
    exists h, (forall e ty, In (DRow (FTySet ty) [e]) A1 -> rep r2 (h e) = rep r2 (g e)) /\ iso_via h r1 r2.

Definition P0 : fprogram := {| fp_arity := []; fp_restype := []; fp_rules := [] |}.
Definition u1 : state := fst (new_el 0 (fst (new_el 0 init))).     (* two elements *)
Definition u2 : state := fst (new_el 0 init).                      (* one element *)
Notation q1 := (exec_close_until 1 P0 (fun _ => false) u1).
Notation q2 := (exec_close_until 1 P0 (fun _ => false) u2).

Theorem hist_indep_unconstrained_refuted : ~ hist_indep_unconstrained.
Proof.
  intros H.
  assert (Hwf : wf_rules (fp_rules P0)) by constructor.
  assert (Fam : FamOK [] (fp_rules P0)) by (intros ru []).
  assert (R1 : Reach P0 [DRow (FTySet 0) [1]; DRow (FTySet 0) [0]] u1).
  { apply (R_new P0 [DRow (FTySet 0) [0]] (fst (new_el 0 init)) 0). apply (R_new P0 [] init 0). apply R_init. }
  assert (R2 : Reach P0 [DRow (FTySet 0) [0]] u2) by (apply (R_new P0 [] init 0); apply R_init).
  assert (E1 : q1 = Some (st_of' q1, false)) by (apply opt_eta; vm_compute; reflexivity).
  assert (E2 : q2 = Some (st_of' q2, false)) by (apply opt_eta; vm_compute; reflexivity).
  assert (SS : same_set (map (dmap (fun _ => 0)) [DRow (FTySet 0) [1]; DRow (FTySet 0) [0]]) [DRow (FTySet 0) [0]]).
  { split; intros d Hd; cbn [map dmap In] in *; tauto. }
  destruct (H P0 [] Hwf Fam _ _ u1 u2 1%nat 1%nat (st_of' q1) (st_of' q2) (fun _ => 0) R1 R2 SS E1 E2)
    as [h [_ [Hc [Hr _]]]].
  assert (F1 : allf (st_of' q1) = [(FTySet 0, [0]); (FTySet 0, [1])]) by (vm_compute; reflexivity).
  assert (F2 : allf (st_of' q2) = [(FTySet 0, [0])]) by (vm_compute; reflexivity).
  assert (N1 : next_id (st_of' q1) = 2) by (vm_compute; reflexivity).
  assert (Rp : forall x, rep (st_of' q1) x = x /\ rep (st_of' q2) x = x) by (intros x; vm_compute; auto).
  assert (V : forall x, x < 2 -> In (FTySet 0, [x]) (allf (st_of' q1)) -> h x = 0).
  { intros x Hx Hin.
    assert (Hl : ids_lt (next_id (st_of' q1)) [x]) by (constructor; [rewrite N1; exact Hx | constructor]).
    pose proof (proj1 (Hr (FTySet 0) [x] Hl)) as G.
    cbn [canon map] in G. rewrite (proj1 (Rp x)) in G. specialize (G Hin). rewrite F2 in G.
    rewrite (proj2 (Rp (h x))) in G. destruct G as [G|[]]. inversion G. reflexivity. }
  assert (V0 : h 0 = 0) by (apply V; [lia | rewrite F1; left; reflexivity]).
  assert (V1 : h 1 = 0) by (apply V; [lia | rewrite F1; right; left; reflexivity]).
  assert (B0 : 0 < next_id (st_of' q1)) by (rewrite N1; lia).
  assert (B1 : 1 < next_id (st_of' q1)) by (rewrite N1; lia).
  pose proof (proj2 (Hc 0 1 B0 B1)) as G. rewrite V0, V1 in G. specialize (G eq_refl).
  rewrite (proj1 (Rp 0)), (proj1 (Rp 1)) in G. discriminate.
Qed.

(* same number of classes (for the shape example) *)
Definition nclasses_eq (a b : state) : bool := Nat.eqb (nclasses a) (nclasses b).
