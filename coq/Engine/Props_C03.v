(* Props_C03.v -- closing a closed model changes nothing.
   Extra hypothesis: FamSound src em (every emitted sub-rule is an aged copy of a source rule). *)
From Coq Require Import List NArith Bool.
From Engine Require Import Model FactsBasic FactsInv FactsOps FactsClose FactsFam FactsIdem FactsRun Run ExSemilattice.
From Engine Require Import FactsStep FactsLeast FactsIso ExLeast.
Import ListNotations.
Local Open Scope N_scope.

Theorem C03_close_idem : forall P src, FamSound src (fp_rules P) -> forall n s,
  Canon s -> Clean s -> Closed src s ->
  exec_close_until (S n) P (fun _ => false) s = Some (s, false).
Proof. exact close_idem. Qed.
Print Assumptions C03_close_idem.

Theorem C03_close_idem_inv : forall P src n s, FamSound src (fp_rules P) ->
  Canon s -> Clean s -> Inv_sn src s -> Inv_e src s ->
  exec_close_until (S n) P (fun _ => false) s = Some (s, false).
Proof. exact close_idem_inv. Qed.
Print Assumptions C03_close_idem_inv.

(* close(); close()  ==  close() *)
Theorem C03_close_twice : forall P src n fuel cond s r,
  wf_rules (fp_rules P) -> FamOK src (fp_rules P) -> FamSound src (fp_rules P) ->
  Reachable P s -> exec_close_until fuel P cond s = Some (r, false) ->
  exec_close_until (S n) P (fun _ => false) r = Some (r, false).
Proof. exact close_idem_after_close. Qed.
Print Assumptions C03_close_twice.

(* History independence proper is NOT proved in this library (it is established by comparison with the
   reference chase).  Statement: two histories whose asserted facts agree up to a renaming g of the
   caller-created elements close to models that are isomorphic by a map extending g. *)
Definition C03_history_indep_full : Prop :=
  forall P src, wf_rules (fp_rules P) -> FamOK src (fp_rules P) ->
  forall A1 A2 s1 s2 f1 f2 r1 r2 (g : N -> N),
    Reach P A1 s1 -> Reach P A2 s2 -> same_set (map (dmap g) A1) A2 ->
    exec_close_until f1 P (fun _ => false) s1 = Some (r1, false) ->
    exec_close_until f2 P (fun _ => false) s2 = Some (r2, false) ->
    exists h, (forall e ty, In (DRow (FTySet ty) [e]) A1 -> rep r2 (h e) = rep r2 (g e)) /\ iso_via h r1 r2.

(* ---- non-vacuity ---- *)
Example C03_ex_hyps : FamSound semi_src (fp_rules semi).
Proof. exact semi_FamSound. Qed.

Example C03_ex_idem :
  iter_counts 40 semi (hist_two ++ [EClose; EClose]) = [Some 9; Some 1].
Proof. vm_compute. reflexivity. Qed.

(* ---- added with the least-model characterisation (FactsLeast.v, FactsIso.v) ---- *)
(* C03_history_indep_full as stated above is FALSE: it allows an arbitrary renaming g (e.g. one that
   identifies two caller elements). *)
Theorem C03_history_indep_full_refuted : ~ C03_history_indep_full.
Proof. exact hist_indep_unconstrained_refuted. Qed.
Print Assumptions C03_history_indep_full_refuted.

(* History independence, proved: two histories that assert the same set of facts up to a bijective
   renaming of the caller's elements (SameFacts: any order, duplicates, any placement of closes) close to
   isomorphic models, by a map that extends the renaming.  Side conditions: FamErase (family shape),
   WellTyped of the two results (typing facts the untyped model does not track; checkable on dumps), and
   AtomsOnly: elements returned by define_ are not passed to later API calls -- this restriction is what
   makes the theorem _partial. *)
Theorem C03_history_indep_partial : forall P src A1 A2 s1 s2 f1 f2 c1 c2 r1 r2 g12 g21,
  wf_rules (fp_rules P) -> FamOK src (fp_rules P) -> FamErase src (fp_rules P) ->
  Reach P A1 s1 -> Reach P A2 s2 ->
  exec_close_until f1 P c1 s1 = Some (r1, false) -> exec_close_until f2 P c2 s2 = Some (r2, false) ->
  WellTyped P r1 -> WellTyped P r2 -> AtomsOnly A1 r1 -> AtomsOnly A2 r2 ->
  SameFacts A1 A2 g12 g21 ->
  exists h, (forall x, logged r1 x = false -> h x = g12 x) /\ iso_via h r1 r2.
Proof. exact history_indep_close. Qed.
Print Assumptions C03_history_indep_partial.
