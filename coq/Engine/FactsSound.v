(* Engine/FactsSound.v -- C02: everything the engine produces is derivable.
   [Derivable P A L] is the least set of facts containing the asserted facts A and closed under rule
   instances (ages erased), equivalence, congruence, functionality and naming of created elements:
   the element logged in L for the term f(args) is the value of f(args) once f(args)! is derivable. *)
From Coq Require Import List Arith NArith Bool Lia.
From Engine Require Import Model FactsBasic FactsInv FactsOps FactsClose.
Import ListNotations.
Local Open Scope N_scope.
Arguments N.add : simpl never.
Arguments N.eqb : simpl never.

Definition dground (sg : asg) (c : fconc) : dfact :=
  match c with
  | CRel r args => DRow (FRel r) (map sg args)
  | CEq x y => DEq (sg x) (sg y)
  | CDef f args => DDef f (map sg args)
  end.

Definition is_function (P : fprogram) (f : N) : bool :=
  existsb (fun e => N.eqb (fst (fst e)) f && snd e) (fp_arity P).

Inductive Derivable (P : fprogram) (A : list dfact) (L : list (N * N * row)) : dfact -> Prop :=
  | D_asserted d : In d A -> Derivable P A L d
  | D_rule ru sg c : In ru (fp_rules P) ->
      (forall a, In a (fr_prem ru) -> Derivable P A L (DRow (fa_rel a) (map sg (fa_args a)))) ->
      In c (fr_conc ru) -> Derivable P A L (dground sg c)
  | D_refl x : Derivable P A L (DEq x x)
  | D_sym x y : Derivable P A L (DEq x y) -> Derivable P A L (DEq y x)
  | D_trans x y z : Derivable P A L (DEq x y) -> Derivable P A L (DEq y z) -> Derivable P A L (DEq x z)
  | D_congr r t t' : Derivable P A L (DRow r t) -> length t = length t' ->
      (forall x y, In (x, y) (combine t t') -> Derivable P A L (DEq x y)) -> Derivable P A L (DRow r t')
  | D_congr_def f t t' : Derivable P A L (DDef f t) -> length t = length t' ->
      (forall x y, In (x, y) (combine t t') -> Derivable P A L (DEq x y)) -> Derivable P A L (DDef f t')
  | D_func f a v w : is_function P f = true ->
      Derivable P A L (DRow (FRel f) (a ++ [v])) -> Derivable P A L (DRow (FRel f) (a ++ [w])) ->
      Derivable P A L (DEq v w)
  | D_name_row e f a : In (e, f, a) L -> Derivable P A L (DDef f a) ->
      Derivable P A L (DRow (FRel f) (a ++ [e]))
  | D_name_el e f a : In (e, f, a) L -> Derivable P A L (DDef f a) ->
      Derivable P A L (DRow (FTySet (restype P f)) [e]).

Lemma Derivable_mono P A A' L L' d :
  incl A A' -> incl L L' -> Derivable P A L d -> Derivable P A' L' d.
Proof.
  intros HA HL H. induction H.
  - apply D_asserted. auto.
  - eapply D_rule; eauto.
  - apply D_refl.
  - apply D_sym; assumption.
  - eapply D_trans; eassumption.
  - eapply D_congr; eauto.
  - eapply D_congr_def; eauto.
  - eapply D_func; eauto.
  - apply D_name_row; auto.
  - eapply D_name_el; eauto.
Qed.

(* ---------- the soundness invariant ---------- *)
Record Sound (P : fprogram) (A : list dfact) (s : state) : Prop := {
  snd_rows : forall x, In x (allf s) -> Derivable P A (log s) (DRow (fst x) (snd x));
  snd_rep : forall x, Derivable P A (log s) (DEq x (rep s x));
  snd_pend : forall f t, In (f, t) (pending s) -> Derivable P A (log s) (DDef f t);
  snd_log : forall e f a, In (e, f, a) (log s) -> Derivable P A (log s) (DDef f a)
}.

(* every element was created by new_ (asserted) or by define_ (logged) *)
Definition Origin (A : list dfact) (s : state) : Prop :=
  forall e, e < next_id s ->
    (exists ty, In (DRow (FTySet ty) [e]) A) \/ (exists f a, In (e, f, a) (log s)).

Lemma Origin_same A s s' : next_id s' = next_id s -> log s' = log s -> Origin A s -> Origin A s'.
Proof. intros E1 E2 H e He. rewrite E1 in He. rewrite E2. apply H. exact He. Qed.

Section Sound.
  Variables (P : fprogram) (A : list dfact).
  Notation Der s := (Derivable P A (log s)).

  Lemma combine_map_in (f : N -> N) t x y : In (x, y) (combine t (map f t)) -> y = f x.
  Proof.
    induction t as [|v t IH]; cbn [combine map In]; [tauto|].
    intros [E|H]; [inversion E; reflexivity | auto].
  Qed.

  Lemma der_canon s r t : Sound P A s -> Der s (DRow r t) -> Der s (DRow r (map (rep s) t)).
  Proof.
    intros HS H. eapply D_congr; [exact H | rewrite map_length; reflexivity |].
    intros x y Hin. apply combine_map_in in Hin. subst y. apply (snd_rep _ _ _ HS).
  Qed.

  Lemma der_canon_def s f t : Sound P A s -> Der s (DDef f t) -> Der s (DDef f (map (rep s) t)).
  Proof.
    intros HS H. eapply D_congr_def; [exact H | rewrite map_length; reflexivity |].
    intros x y Hin. apply combine_map_in in Hin. subst y. apply (snd_rep _ _ _ HS).
  Qed.

  Lemma Sound_insert x s : Sound P A s -> Der s (DRow (fst x) (snd x)) -> Sound P A (insert x s).
  Proof.
    intros HS Hx. destruct (insert_fields x s) as [F1 [F2 [F3 [F4 F5]]]].
    constructor; rewrite F5.
    - intros y Hy. unfold allf in Hy. rewrite F2 in Hy. apply in_app_or in Hy. destruct Hy as [Hy|Hy].
      + apply (snd_rows _ _ _ HS). unfold allf. apply in_or_app. auto.
      + apply insert_new in Hy. destruct Hy as [Hy|[-> _]].
        * apply (snd_rows _ _ _ HS). unfold allf. apply in_or_app. auto.
        * cbn [canon_fact fst snd]. apply der_canon; assumption.
    - rewrite F1. apply (snd_rep _ _ _ HS).
    - rewrite F3. apply (snd_pend _ _ _ HS).
    - apply (snd_log _ _ _ HS).
  Qed.

  Lemma Sound_insert_all l : forall s, Sound P A s ->
    (forall x, In x l -> Der s (DRow (fst x) (snd x))) -> Sound P A (insert_all l s).
  Proof.
    induction l as [|x l IH]; intros s HS Hl; cbn [insert_all fold_left]; [exact HS|].
    fold (insert_all l (insert x s)). apply IH.
    - apply Sound_insert; [exact HS | apply Hl; left; reflexivity].
    - intros y Hy. destruct (insert_fields x s) as [_ [_ [_ [_ F5]]]]. rewrite F5. apply Hl. right. exact Hy.
  Qed.

  Lemma Sound_equate a b s : Sound P A s -> Der s (DEq a b) -> Sound P A (equate a b s).
  Proof.
    intros HS Hab. destruct (equate_fields a b s) as [F1 [F2 [F3 [F4 F5]]]].
    constructor; rewrite F5.
    - intros y Hy. unfold allf in Hy. rewrite F1, F2 in Hy. apply (snd_rows _ _ _ HS). exact Hy.
    - intros x. rewrite equate_rep. destruct (N.eqb (rep s x) (rep s b)) eqn:E.
      + apply N.eqb_eq in E.
        (* x ~ rep x = rep b ~ b ~ a ~ rep a *)
        eapply D_trans; [apply (snd_rep _ _ _ HS x)|]. rewrite E.
        eapply D_trans; [apply D_sym; apply (snd_rep _ _ _ HS b)|].
        eapply D_trans; [apply D_sym; exact Hab|]. apply (snd_rep _ _ _ HS a).
      + apply (snd_rep _ _ _ HS).
    - rewrite F3. apply (snd_pend _ _ _ HS).
    - apply (snd_log _ _ _ HS).
  Qed.

  Lemma Sound_equate_all l : forall s, Sound P A s ->
    (forall a b, In (a, b) l -> Der s (DEq a b)) -> Sound P A (equate_all l s).
  Proof.
    induction l as [|[a b] l IH]; intros s HS Hl; cbn [equate_all fold_left fst snd]; [exact HS|].
    fold (equate_all l (equate a b s)). apply IH.
    - apply Sound_equate; [exact HS | apply Hl; left; reflexivity].
    - intros a' b' Hin. destruct (equate_fields a b s) as [_ [_ [_ [_ F5]]]]. rewrite F5.
      apply Hl. right. exact Hin.
  Qed.

  Lemma Sound_canonicalize s : Sound P A s -> Sound P A (canonicalize s).
  Proof.
    intros HS. destruct (canonicalize_fields s) as [F1 [F3 [F4 F5]]].
    constructor; rewrite F5.
    - intros y Hy. unfold allf in Hy. apply in_app_or in Hy. destruct Hy as [Hy|Hy].
      + apply canonicalize_old in Hy. apply (snd_rows _ _ _ HS). unfold allf. apply in_or_app. tauto.
      + apply canonicalize_new in Hy. destruct Hy as [[Hy _]|[x [Hx [_ [E _]]]]].
        * apply (snd_rows _ _ _ HS). unfold allf. apply in_or_app. auto.
        * subst y. cbn [canon_fact fst snd]. apply der_canon; [exact HS|].
          apply (snd_rows _ _ _ HS). exact Hx.
    - rewrite F1. apply (snd_rep _ _ _ HS).
    - rewrite F3. apply (snd_pend _ _ _ HS).
    - apply (snd_log _ _ _ HS).
  Qed.

  Lemma Sound_move s : Sound P A s -> Sound P A (move s).
  Proof.
    intros HS. constructor; cbn [move log rep pending].
    - intros y Hy. apply (proj1 (move_allf s y)) in Hy. apply (snd_rows _ _ _ HS). exact Hy.
    - apply (snd_rep _ _ _ HS).
    - apply (snd_pend _ _ _ HS).
    - apply (snd_log _ _ _ HS).
  Qed.

  Lemma tbl_allf s a x : In x (tbl s a) -> In x (allf s).
  Proof.
    unfold allf. destruct a; cbn [tbl]; rewrite ?in_app_iff; tauto.
  Qed.

  (* every collected conclusion is derivable *)
  Lemma collect_derivable s g : Sound P A s -> In g (collect (fp_rules P) s) ->
    match g with
    | GRel r t => Der s (DRow (FRel r) t)
    | GEq a b => Der s (DEq a b)
    | GDef f t => Der s (DDef f t)
    end.
  Proof.
    intros HS Hg. destruct (collect_sound _ _ _ Hg) as [ru [sg [c [Hru [Hm [Hc E]]]]]].
    assert (HD : Der s (dground sg c)).
    { eapply D_rule; eauto. intros a Ha. unfold aged_match in Hm. rewrite Forall_forall in Hm.
      specialize (Hm a Ha). unfold atom_in in Hm. apply tbl_allf in Hm.
      apply (snd_rows _ _ _ HS _ Hm). }
    subst g. destruct c; cbn [ground dground] in *; exact HD.
  Qed.

  Lemma Sound_iter s : Sound P A s -> Sound P A (exec_iter P s).
  Proof.
    intros HS. unfold exec_iter. set (D := collect (fp_rules P) s).
    assert (HD : forall g, In g D -> _) by (intros g Hg; exact (collect_derivable s g HS Hg)).
    pose proof (Sound_move s HS) as S1.
    assert (S2 : Sound P A (equate_all (geqs D) (move s))).
    { apply Sound_equate_all; [exact S1|]. intros a b Hin. apply in_geqs in Hin.
      apply (HD _ Hin). }
    set (s2 := equate_all (geqs D) (move s)) in *.
    destruct (equate_all_fields (geqs D) (move s)) as [_ [_ [_ [_ L2]]]]. fold s2 in L2.
    pose proof (Sound_canonicalize s2 S2) as S3. set (s3 := canonicalize s2) in *.
    destruct (canonicalize_fields s2) as [_ [_ [_ L3]]]. fold s3 in L3.
    assert (S4 : Sound P A (insert_all (grels D) s3)).
    { apply Sound_insert_all; [exact S3|]. intros x Hx.
      destruct (in_grels_inv _ _ Hx) as [r [t [-> Hg]]]. cbn [fst snd]. rewrite L3, L2.
      apply (HD _ Hg). }
    set (s4 := insert_all (grels D) s3) in *.
    destruct (insert_all_fields (grels D) s3) as [_ [_ [_ [_ L4]]]]. fold s4 in L4.
    constructor; cbn [set_pending log rep pending].
    - intros y Hy. apply (snd_rows _ _ _ S4). exact Hy.
    - apply (snd_rep _ _ _ S4).
    - intros f t Hin. apply in_app_or in Hin. destruct Hin as [Hin|Hin].
      + apply (snd_pend _ _ _ S4). exact Hin.
      + apply in_gdefs in Hin. rewrite L4, L3, L2. apply (HD _ Hin).
    - apply (snd_log _ _ _ S4).
  Qed.

  Lemma Sound_with_fresh f a s :
    Sound P A s -> Der s (DDef f a) -> Sound P A (with_fresh P f a s) /\
    Derivable P A (log (with_fresh P f a s)) (DRow (FRel f) (a ++ [next_id s])).
  Proof.
    intros HS Hd.
    assert (Hi : incl (log s) (log (with_fresh P f a s))) by (cbn [with_fresh log]; apply incl_tl, incl_refl).
    assert (Hd' : Derivable P A (log (with_fresh P f a s)) (DDef f a))
      by (eapply Derivable_mono; [apply incl_refl | exact Hi | exact Hd]).
    assert (Hin : In (next_id s, f, a) (log (with_fresh P f a s))) by (left; reflexivity).
    split; [|apply D_name_row; assumption].
    constructor.
    - intros y Hy. unfold allf in Hy. cbn [with_fresh old new] in Hy.
      rewrite app_assoc in Hy. apply in_app_or in Hy. destruct Hy as [Hy|[<-|[]]].
      + eapply Derivable_mono; [apply incl_refl | exact Hi |]. apply (snd_rows _ _ _ HS). exact Hy.
      + cbn [fst snd]. eapply D_name_el; eauto.
    - intros x. eapply Derivable_mono; [apply incl_refl | exact Hi |]. apply (snd_rep _ _ _ HS).
    - intros f' t Hp. eapply Derivable_mono; [apply incl_refl | exact Hi |].
      apply (snd_pend _ _ _ HS). exact Hp.
    - intros e f' a' [E|Hl].
      + inversion E; subst. exact Hd'.
      + eapply Derivable_mono; [apply incl_refl | exact Hi |]. eapply (snd_log _ _ _ HS). exact Hl.
  Qed.

  Lemma define_log_incl f t s : incl (log s) (log (fst (define P f t s))).
  Proof.
    destruct (define_cases P f t s) as [[v [_ E]]|[_ E]]; rewrite E; cbn [fst]; [apply incl_refl|].
    match goal with |- context [insert ?x ?s0] => destruct (insert_fields x s0) as [_ [_ [_ [_ F5]]]] end.
    rewrite F5. cbn [with_fresh log]. apply incl_tl, incl_refl.
  Qed.

  Lemma Sound_define f t s : Sound P A s -> Der s (DDef f t) -> Sound P A (fst (define P f t s)).
  Proof.
    intros HS Hd. destruct (define_cases P f t s) as [[v [_ E]]|[_ E]]; rewrite E; cbn [fst]; [exact HS|].
    pose proof (der_canon_def s f t HS Hd) as Hd'.
    destruct (Sound_with_fresh f (map (rep s) t) s HS Hd') as [S1 Hrow].
    apply Sound_insert; [exact S1 | exact Hrow].
  Qed.

  Lemma Sound_defs_fold l : forall s, Sound P A s ->
    (forall f t, In (f, t) l -> Der s (DDef f t)) -> Sound P A (defs_fold P l s).
  Proof.
    induction l as [|[f t] l IH]; intros s HS Hl; cbn [defs_fold fold_left fst snd]; [exact HS|].
    fold (defs_fold P l (fst (define P f t s))). apply IH.
    - apply Sound_define; [exact HS | apply Hl; left; reflexivity].
    - intros f' t' Hin. eapply Derivable_mono; [apply incl_refl | apply define_log_incl |].
      apply Hl. right. exact Hin.
  Qed.

  Lemma Sound_set_pending_nil s : Sound P A s -> Sound P A (set_pending s []).
  Proof.
    intros HS. constructor; cbn [set_pending log rep pending].
    - intros y Hy. apply (snd_rows _ _ _ HS). exact Hy.
    - apply (snd_rep _ _ _ HS).
    - intros f t [].
    - apply (snd_log _ _ _ HS).
  Qed.

  Lemma Sound_apply_defs s : Sound P A s -> Sound P A (apply_defs P s).
  Proof.
    intros HS. unfold apply_defs. fold (defs_fold P (pending s) (set_pending s [])).
    apply Sound_defs_fold; [apply Sound_set_pending_nil; exact HS|].
    intros f t Hin. cbn [set_pending log]. apply (snd_pend _ _ _ HS). exact Hin.
  Qed.

  Lemma Sound_loop cond fuel : forall s r b,
    Sound P A s -> exec_loop fuel P cond s = Some (r, b) -> Sound P A r.
  Proof.
    induction fuel as [|k IH]; intros s r b HS H; cbn [exec_loop] in H; [discriminate|].
    pose proof (Sound_iter s HS) as S1. pose proof (Sound_apply_defs _ S1) as S2.
    destruct (cond (exec_iter P s)).
    - inversion H; subst. exact S2.
    - destruct (is_dirty (exec_iter P s)); [exact (IH _ _ _ S1 H)|].
      destruct (is_dirty (apply_defs P (exec_iter P s))); [exact (IH _ _ _ S2 H)|].
      inversion H; subst. exact S2.
  Qed.

  Lemma Sound_close_until cond fuel s r b :
    Sound P A s -> exec_close_until fuel P cond s = Some (r, b) -> Sound P A r.
  Proof.
    intros HS H. unfold exec_close_until in H. pose proof (Sound_canonicalize s HS) as S0.
    destruct (cond (canonicalize s)); [inversion H; subst; exact S0|].
    eapply Sound_loop; [|exact H]. apply Sound_set_pending_nil. exact S0.
  Qed.

  (* --- Origin --- *)
  Lemma Origin_define f t s : Origin A s -> Origin A (fst (define P f t s)).
  Proof.
    intros HO. destruct (define_cases P f t s) as [[v [_ E]]|[_ E]]; rewrite E; cbn [fst]; [exact HO|].
    match goal with |- context [insert ?x ?s0] => destruct (insert_fields x s0) as [_ [_ [_ [F4 F5]]]] end.
    intros e He. rewrite F4 in He. rewrite F5. cbn [with_fresh next_id log] in *.
    destruct (N.eq_dec e (next_id s)) as [->|Hne].
    - right. exists f, (map (rep s) t). left. reflexivity.
    - destruct (HO e) as [H|[f' [a' H]]]; [lia | left; exact H | right; exists f', a'; right; exact H].
  Qed.

  Lemma Origin_defs_fold l : forall s, Origin A s -> Origin A (defs_fold P l s).
  Proof.
    induction l as [|[f t] l IH]; intros s HO; cbn [defs_fold fold_left fst snd]; [exact HO|].
    fold (defs_fold P l (fst (define P f t s))). apply IH. apply Origin_define. exact HO.
  Qed.

  Lemma Origin_apply_defs s : Origin A s -> Origin A (apply_defs P s).
  Proof. intros HO. unfold apply_defs. apply (Origin_defs_fold (pending s) (set_pending s [])). exact HO. Qed.

  Lemma Origin_iter s : Origin A s -> Origin A (exec_iter P s).
  Proof.
    intros HO. assert (Hid : forall x, (fun x : N => x) ((fun x : N => x) x) = x) by reflexivity.
    unfold exec_iter. set (D := collect (fp_rules P) s).
    destruct (equate_all_fields (geqs D) (move s)) as [_ [_ [_ [N2 L2]]]].
    destruct (canonicalize_fields (equate_all (geqs D) (move s))) as [_ [_ [N3 L3]]].
    destruct (insert_all_fields (grels D) (canonicalize (equate_all (geqs D) (move s)))) as [_ [_ [_ [N4 L4]]]].
    eapply Origin_same; [| |exact HO]; cbn [set_pending next_id log]; [rewrite N4, N3, N2|rewrite L4, L3, L2];
      reflexivity.
  Qed.

  Lemma Origin_loop cond fuel : forall s r b,
    Origin A s -> exec_loop fuel P cond s = Some (r, b) -> Origin A r.
  Proof.
    induction fuel as [|k IH]; intros s r b HO H; cbn [exec_loop] in H; [discriminate|].
    pose proof (Origin_iter s HO) as O1. pose proof (Origin_apply_defs _ O1) as O2.
    destruct (cond (exec_iter P s)).
    - inversion H; subst. exact O2.
    - destruct (is_dirty (exec_iter P s)); [exact (IH _ _ _ O1 H)|].
      destruct (is_dirty (apply_defs P (exec_iter P s))); [exact (IH _ _ _ O2 H)|].
      inversion H; subst. exact O2.
  Qed.

  Lemma Origin_close_until cond fuel s r b :
    Origin A s -> exec_close_until fuel P cond s = Some (r, b) -> Origin A r.
  Proof.
    intros HO H. unfold exec_close_until in H.
    destruct (canonicalize_fields s) as [_ [_ [N0 L0]]].
    assert (O0 : Origin A (canonicalize s)) by (eapply Origin_same; eauto).
    destruct (cond (canonicalize s)); [inversion H; subst; exact O0|].
    eapply Origin_loop; [|exact H]. eapply Origin_same; [| |exact O0]; reflexivity.
  Qed.
End Sound.

Lemma Sound_mono_A P A A' s : incl A A' -> Sound P A s -> Sound P A' s.
Proof.
  intros Hi HS. constructor.
  - intros x Hx. eapply Derivable_mono; [exact Hi | apply incl_refl | apply (snd_rows _ _ _ HS); exact Hx].
  - intros x. eapply Derivable_mono; [exact Hi | apply incl_refl | apply (snd_rep _ _ _ HS)].
  - intros f t Hp. eapply Derivable_mono; [exact Hi | apply incl_refl | apply (snd_pend _ _ _ HS); exact Hp].
  - intros e f a Hl. eapply Derivable_mono; [exact Hi | apply incl_refl | eapply (snd_log _ _ _ HS); exact Hl].
Qed.

Lemma Origin_mono_A A A' s : incl A A' -> Origin A s -> Origin A' s.
Proof.
  intros Hi HO e He. destruct (HO e He) as [[ty H]|H]; [left; exists ty; apply Hi; exact H | right; exact H].
Qed.

(* C02: the invariant holds in every reachable state (hence at every return of close_until, early or not) *)
Theorem sound P A s : Reach P A s -> Sound P A s /\ Origin A s.
Proof.
  induction 1 as [|A s ty HR [IHS IHO]|A s r t HR [IHS IHO] Hb|A s f t HR [IHS IHO] Hb
                  |A s a b HR [IHS IHO] Ha Hb|A s fuel cond r b HR [IHS IHO] Hc].
  - split.
    + constructor; cbn [init allf old new app rep pending log].
      * intros x [].
      * intros x. apply D_refl.
      * intros f t [].
      * intros e f a [].
    + intros e He. cbn [init next_id] in He. lia.
  - set (d := DRow (FTySet ty) [next_id s]).
    assert (Hi : incl A (d :: A)) by (apply incl_tl, incl_refl).
    pose proof (Sound_mono_A P _ _ s Hi IHS) as S'. split.
    + unfold new_el. cbn [fst]. constructor; cbn [log rep pending].
      * intros x Hx. unfold allf in Hx. cbn [old new] in Hx. rewrite app_assoc in Hx.
        apply in_app_or in Hx. destruct Hx as [Hx|[<-|[]]].
        -- apply (snd_rows _ _ _ S'). exact Hx.
        -- apply D_asserted. left. reflexivity.
      * apply (snd_rep _ _ _ S').
      * apply (snd_pend _ _ _ S').
      * apply (snd_log _ _ _ S').
    + intros e He. unfold new_el in *. cbn [fst next_id log] in *.
      destruct (N.eq_dec e (next_id s)) as [->|Hne].
      * left. exists ty. left. reflexivity.
      * destruct (IHO e) as [[ty' H]|H]; [lia | left; exists ty'; right; exact H | right; exact H].
  - set (d := DRow (FRel r) t). assert (Hi : incl A (d :: A)) by (apply incl_tl, incl_refl).
    pose proof (Sound_mono_A P _ _ s Hi IHS) as S'. split.
    + apply Sound_insert; [exact S'|]. apply D_asserted. left. reflexivity.
    + destruct (insert_fields (FRel r, t) s) as [_ [_ [_ [F4 F5]]]].
      eapply Origin_same; [exact F4 | exact F5 |]. eapply Origin_mono_A; eauto.
  - set (d := DDef f t). assert (Hi : incl A (d :: A)) by (apply incl_tl, incl_refl).
    pose proof (Sound_mono_A P _ _ s Hi IHS) as S'. split.
    + apply Sound_define; [exact S'|]. apply D_asserted. left. reflexivity.
    + apply Origin_define. eapply Origin_mono_A; eauto.
  - set (d := DEq a b). assert (Hi : incl A (d :: A)) by (apply incl_tl, incl_refl).
    pose proof (Sound_mono_A P _ _ s Hi IHS) as S'. split.
    + apply Sound_equate; [exact S'|]. apply D_asserted. left. reflexivity.
    + destruct (equate_fields a b s) as [_ [_ [_ [F4 F5]]]].
      eapply Origin_same; [exact F4 | exact F5 |]. eapply Origin_mono_A; eauto.
  - split; [eapply Sound_close_until; eauto | eapply Origin_close_until; eauto].
Qed.

(* consequences, in the vocabulary of the property *)
Corollary sound_rows P A s x : Reach P A s -> In x (allf s) -> Derivable P A (log s) (DRow (fst x) (snd x)).
Proof. intros HR. apply (snd_rows _ _ _ (proj1 (sound P A s HR))). Qed.

Corollary sound_merged P A s x y : Reach P A s -> rep s x = rep s y -> Derivable P A (log s) (DEq x y).
Proof.
  intros HR E. pose proof (proj1 (sound P A s HR)) as HS.
  eapply D_trans; [apply (snd_rep _ _ _ HS x)|]. rewrite E. apply D_sym. apply (snd_rep _ _ _ HS y).
Qed.

Corollary sound_created P A s e : Reach P A s -> e < next_id s ->
  (exists ty, In (DRow (FTySet ty) [e]) A) \/
  (exists f a, In (e, f, a) (log s) /\ Derivable P A (log s) (DDef f a)).
Proof.
  intros HR He. destruct (sound P A s HR) as [HS HO].
  destruct (HO e He) as [H|[f [a H]]]; [left; exact H|]. right. exists f, a. split; [exact H|].
  eapply (snd_log _ _ _ HS). exact H.
Qed.

(* define_ does not create an element when the application is defined -- in canonical states *)
Theorem define_no_dup_canon P f args s :
  Canon s -> (exists v, In (FRel f, canon (rep s) args ++ [v]) (allf s)) ->
  exists v, define P f args s = (s, v).
Proof.
  intros _ [v Hin]. destruct (define_cases P f args s) as [[w [_ E]]|[L _]]; [exists w; exact E|].
  exfalso. apply (lookup_fun_None _ _ _ L v). unfold allf, canon in Hin.
  apply in_app_or in Hin. apply in_or_app. tauto.
Qed.

(* C07: every state in which close_until stops (early or not) is sound *)
Theorem cu_sound P A s cond fuel r b :
  Reach P A s -> exec_close_until fuel P cond s = Some (r, b) -> Sound P A r /\ Origin A r.
Proof. intros HR H. apply sound. eapply R_close; eauto. Qed.
