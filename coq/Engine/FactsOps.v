(* Engine/FactsOps.v -- what each operation of Model.v does, as equations/iffs on the fields. *)
From Coq Require Import List Arith NArith Bool Lia.
From Engine Require Import Model FactsBasic FactsInv.
Import ListNotations.
Local Open Scope N_scope.
Arguments N.add : simpl never.
Arguments N.eqb : simpl never.

(* ---------- equate ---------- *)
Lemma equate_rep a b s x :
  rep (equate a b s) x = if N.eqb (rep s x) (rep s b) then rep s a else rep s x.
Proof.
  unfold equate. destruct (N.eqb (rep s a) (rep s b)) eqn:E; [|reflexivity].
  destruct (N.eqb (rep s x) (rep s b)) eqn:E2; [|reflexivity].
  apply N.eqb_eq in E, E2. congruence.
Qed.

Lemma equate_fields a b s :
  old (equate a b s) = old s /\ new (equate a b s) = new s /\ pending (equate a b s) = pending s /\
  next_id (equate a b s) = next_id s /\ log (equate a b s) = log s.
Proof. unfold equate. destruct (N.eqb (rep s a) (rep s b)); repeat split; reflexivity. Qed.

Lemma equate_idem a b s : Idem s -> Idem (equate a b s).
Proof.
  intros H x. rewrite !equate_rep.
  destruct (N.eqb (rep s x) (rep s b)) eqn:E.
  - rewrite H. destruct (N.eqb (rep s a) (rep s b)) eqn:E2; reflexivity.
  - rewrite H, E. reflexivity.
Qed.

Lemma equate_coarse a b s x : Idem s -> rep (equate a b s) (rep s x) = rep (equate a b s) x.
Proof. intros H. rewrite !equate_rep, H. reflexivity. Qed.

Lemma equate_eq a b s : rep (equate a b s) a = rep (equate a b s) b.
Proof.
  rewrite !equate_rep, N.eqb_refl. destruct (N.eqb (rep s a) (rep s b)); reflexivity.
Qed.

Lemma equate_root a b s x : Idem s -> rep (equate a b s) x = x -> rep s x = x.
Proof.
  intros H. rewrite equate_rep. destruct (N.eqb (rep s x) (rep s b)); [|auto].
  intros E. rewrite <- E at 1. rewrite H. exact E.
Qed.

Lemma equate_min a b s x y :
  rep (equate a b s) x = rep (equate a b s) y -> eqcl (rep s) [(a, b)] x y.
Proof.
  rewrite !equate_rep.
  assert (P : eqcl (rep s) [(a, b)] a b) by (apply eqcl_pair; left; reflexivity).
  destruct (N.eqb (rep s x) (rep s b)) eqn:Ex; destruct (N.eqb (rep s y) (rep s b)) eqn:Ey;
    try apply N.eqb_eq in Ex; try apply N.eqb_eq in Ey; intros E.
  - apply eqcl_base. congruence.
  - (* x ~ b ~ a ~ y *)
    apply eqcl_trans with b; [apply eqcl_base; exact Ex|].
    apply eqcl_trans with a; [apply eqcl_sym; exact P | apply eqcl_base; exact E].
  - apply eqcl_trans with a; [apply eqcl_base; exact E|].
    apply eqcl_trans with b; [exact P | apply eqcl_base; congruence].
  - apply eqcl_base. exact E.
Qed.

Lemma eqcl_weaken f E E' x y : incl E E' -> eqcl f E x y -> eqcl f E' x y.
Proof.
  intros Hi H. induction H.
  - apply eqcl_base; assumption.
  - apply eqcl_pair. apply Hi. assumption.
  - apply eqcl_sym. assumption.
  - eapply eqcl_trans; eassumption.
Qed.

Record rep_ext (s s' : state) (E : list (N * N)) : Prop := {
  re_idem : Idem s';
  re_coarse : forall x, rep s' (rep s x) = rep s' x;
  re_eqs : forall a b, In (a, b) E -> rep s' a = rep s' b;
  re_root : forall x, rep s' x = x -> rep s x = x;
  re_min : forall x y, rep s' x = rep s' y -> eqcl (rep s) E x y
}.

Lemma equate_all_fields l : forall s,
  old (equate_all l s) = old s /\ new (equate_all l s) = new s /\
  pending (equate_all l s) = pending s /\ next_id (equate_all l s) = next_id s /\
  log (equate_all l s) = log s.
Proof.
  induction l as [|[a b] l IH]; intros s; cbn [equate_all fold_left fst snd]; [repeat split; reflexivity|].
  fold (equate_all l (equate a b s)).
  destruct (IH (equate a b s)) as [H1 [H2 [H3 [H4 H5]]]].
  destruct (equate_fields a b s) as [G1 [G2 [G3 [G4 G5]]]].
  repeat split; congruence.
Qed.

Lemma equate_all_ext l : forall s, Idem s -> rep_ext s (equate_all l s) l.
Proof.
  induction l as [|[a b] l IH]; intros s Hid; cbn [equate_all fold_left fst snd].
  - constructor; auto.
    + intros a b [].
    + intros x y E. apply eqcl_base. exact E.
  - fold (equate_all l (equate a b s)).
    pose proof (equate_idem a b s Hid) as Hid1.
    specialize (IH (equate a b s) Hid1). set (s1 := equate a b s) in *. set (s' := equate_all l s1) in *.
    constructor.
    + exact (re_idem _ _ _ IH).
    + intros x. rewrite <- (re_coarse _ _ _ IH (rep s x)). unfold s1 at 1. rewrite (equate_coarse a b s x Hid).
      apply (re_coarse _ _ _ IH).
    + intros a' b' [E|Hin].
      * inversion E; subst a' b'. rewrite <- (re_coarse _ _ _ IH a), <- (re_coarse _ _ _ IH b).
        unfold s1. rewrite equate_eq. reflexivity.
      * apply (re_eqs _ _ _ IH). exact Hin.
    + intros x E. apply (equate_root a b s x Hid). apply (re_root _ _ _ IH). exact E.
    + intros x y E. pose proof (re_min _ _ _ IH x y E) as M. clear E.
      induction M as [x y E|a' b' Hin|x y _ IHM|x y z _ IH1 _ IH2].
      * eapply eqcl_weaken; [|apply (equate_min a b s x y E)].
        intros p [Hp|[]]. subst p. left. reflexivity.
      * apply eqcl_pair. right. exact Hin.
      * apply eqcl_sym. exact IHM.
      * eapply eqcl_trans; eassumption.
Qed.

(* ---------- insert ---------- *)
Lemma insert_fields x s :
  rep (insert x s) = rep s /\ old (insert x s) = old s /\ pending (insert x s) = pending s /\
  next_id (insert x s) = next_id s /\ log (insert x s) = log s.
Proof.
  unfold insert. destruct (mem _ (new s) || mem _ (old s)); repeat split; reflexivity.
Qed.

Lemma insert_new x s y :
  In y (new (insert x s)) <-> In y (new s) \/ (y = canon_fact (rep s) x /\ ~ In y (old s)).
Proof.
  unfold insert. destruct (mem (canon_fact (rep s) x) (new s) || mem (canon_fact (rep s) x) (old s)) eqn:E.
  - apply orb_true_iff in E. rewrite !mem_In in E. split; [auto|].
    intros [H|[-> H]]; [exact H|]. tauto.
  - apply orb_false_iff in E. rewrite !mem_false in E. destruct E as [E1 E2].
    cbn [new set_new]. rewrite in_app_iff. cbn [In]. split.
    + intros [H|[H|[]]]; [auto|]. subst y. auto.
    + intros [H|[-> H]]; auto.
Qed.

Lemma insert_all_fields l : forall s,
  rep (insert_all l s) = rep s /\ old (insert_all l s) = old s /\
  pending (insert_all l s) = pending s /\ next_id (insert_all l s) = next_id s /\
  log (insert_all l s) = log s.
Proof.
  induction l as [|x l IH]; intros s; cbn [insert_all fold_left]; [repeat split; reflexivity|].
  fold (insert_all l (insert x s)).
  destruct (IH (insert x s)) as [H1 [H2 [H3 [H4 H5]]]].
  destruct (insert_fields x s) as [G1 [G2 [G3 [G4 G5]]]].
  repeat split; congruence.
Qed.

Lemma insert_all_new l : forall s y,
  In y (new (insert_all l s)) <->
  In y (new s) \/ (exists x, In x l /\ y = canon_fact (rep s) x /\ ~ In y (old s)).
Proof.
  induction l as [|x l IH]; intros s y; cbn [insert_all fold_left].
  - split; [auto|]. intros [H|[x [[] _]]]. exact H.
  - fold (insert_all l (insert x s)). rewrite IH, insert_new.
    destruct (insert_fields x s) as [G1 [G2 _]]. rewrite G1, G2. split.
    + intros [[H|[E H]]|[x' [Hx' [E H]]]].
      * auto.
      * right. exists x. cbn [In]. auto.
      * right. exists x'. cbn [In]. auto.
    + intros [H|[x' [[Hx'|Hx'] [E H]]]].
      * auto.
      * subst x'. auto.
      * right. exists x'. auto.
Qed.

(* ---------- canonicalize ---------- *)
Lemma canonicalize_fields s :
  rep (canonicalize s) = rep s /\ pending (canonicalize s) = pending s /\
  next_id (canonicalize s) = next_id s /\ log (canonicalize s) = log s.
Proof.
  unfold canonicalize.
  match goal with |- context [insert_all ?l ?s0] => destruct (insert_all_fields l s0) as [H1 [H2 [H3 [H4 H5]]]] end.
  repeat split; assumption.
Qed.

Lemma canonicalize_old s x :
  In x (old (canonicalize s)) <-> In x (old s) /\ is_canon (rep s) (snd x).
Proof.
  unfold canonicalize.
  match goal with |- context [insert_all ?l ?s0] => destruct (insert_all_fields l s0) as [_ [H2 _]] end.
  rewrite H2. cbn [old]. rewrite filter_In, is_canon_b_spec. tauto.
Qed.

Lemma canonicalize_new s y :
  In y (new (canonicalize s)) <->
  (In y (new s) /\ is_canon (rep s) (snd y)) \/
  (exists x, In x (allf s) /\ ~ is_canon (rep s) (snd x) /\ y = canon_fact (rep s) x /\
             ~ (In y (old s) /\ is_canon (rep s) (snd y))).
Proof.
  unfold canonicalize. rewrite insert_all_new. cbn [new old rep].
  rewrite filter_In, is_canon_b_spec. split.
  - intros [H|[x [Hx [E H]]]]; [left; exact H|]. right. exists x.
    apply filter_In in Hx. destruct Hx as [Hx C]. apply negb_true_iff, is_canon_b_false in C.
    rewrite filter_In, is_canon_b_spec in H. repeat split; auto.
  - intros [H|[x [Hx [C [E H]]]]]; [left; exact H|]. right. exists x. split; [|split; [exact E|]].
    + apply filter_In. split; [exact Hx|]. apply negb_true_iff, is_canon_b_false. exact C.
    + rewrite filter_In, is_canon_b_spec. exact H.
Qed.

(* ---------- move ---------- *)
Lemma move_allf s : forall x, In x (allf (move s)) <-> In x (allf s).
Proof. intros x. unfold allf, move. cbn [old new]. rewrite app_nil_r. tauto. Qed.

(* ---------- the whole iteration ---------- *)
Lemma exec_iter_rep P s :
  rep (exec_iter P s) = rep (equate_all (geqs (collect (fp_rules P) s)) (move s)).
Proof.
  unfold exec_iter. cbn [rep set_pending].
  match goal with |- context [insert_all ?l ?s0] => destruct (insert_all_fields l s0) as [H1 _] end.
  rewrite H1. apply canonicalize_fields.
Qed.

Theorem exec_iter_astep P s :
  wf_rules (fp_rules P) -> Idem s ->
  astep (fp_rules P) s (exec_iter P s) (collect (fp_rules P) s).
Proof.
  intros Hwf Hid.
  set (D := collect (fp_rules P) s).
  set (s2 := equate_all (geqs D) (move s)).
  assert (Hid1 : Idem (move s)) by exact Hid.
  pose proof (equate_all_ext (geqs D) (move s) Hid1) as RE. fold s2 in RE.
  destruct (equate_all_fields (geqs D) (move s)) as [F1 [F2 [F3 [F4 F5]]]]. fold s2 in F1, F2, F3, F4, F5.
  set (s3 := canonicalize s2).
  destruct (canonicalize_fields s2) as [C1 [C3 [C4 C5]]]. fold s3 in C1, C3, C4, C5.
  set (s4 := insert_all (grels D) s3).
  destruct (insert_all_fields (grels D) s3) as [I1 [I2 [I3 [I4 I5]]]]. fold s4 in I1, I2, I3, I4, I5.
  assert (Es : exec_iter P s = set_pending s4 (pending s4 ++ gdefs D)) by reflexivity.
  assert (Er : rep (exec_iter P s) = rep s2) by (rewrite Es; cbn [rep set_pending]; congruence).
  assert (Eo : forall x, In x (old (exec_iter P s)) <-> In x (allf s) /\ is_canon (rep s2) (snd x)).
  { intros x. rewrite Es. cbn [old set_pending]. rewrite I2. unfold s3. rewrite canonicalize_old, F1.
    cbn [move old]. unfold allf. tauto. }
  constructor.
  - intros ru sg Hru Hm c Hc. apply collect_complete with ru; assumption.
  - intros g Hg. destruct (collect_sound _ _ _ Hg) as [ru [sg [c H]]]. exists ru, sg, c. exact H.
  - rewrite Er. exact (re_idem _ _ _ RE).
  - rewrite Er. exact (re_coarse _ _ _ RE).
  - rewrite Er. intros a b H. apply (re_eqs _ _ _ RE). apply in_geqs. exact H.
  - rewrite Er. exact (re_root _ _ _ RE).
  - rewrite Er. exact (re_min _ _ _ RE).
  - rewrite Er. exact Eo.
  - intros y. rewrite Er, Eo.
    change (new (exec_iter P s)) with (new s4).
    assert (Eo3 : forall x, In x (old s3) <-> In x (allf s) /\ is_canon (rep s2) (snd x)).
    { intros x. unfold s3. rewrite canonicalize_old, F1. cbn [move old]. unfold allf. tauto. }
    assert (Ea : forall x, In x (allf s2) <-> In x (allf s)).
    { intros x. unfold allf. rewrite F1, F2. cbn [move old new]. rewrite app_nil_r. tauto. }
    pose proof (insert_all_new (grels D) s3 y) as En. fold s4 in En. rewrite C1 in En.
    pose proof (canonicalize_new s2 y) as En3. fold s3 in En3. rewrite F1, F2 in En3.
    cbn [move old new] in En3.
    rewrite En, En3. clear En En3. split.
    + intros [[[[] _]|[x [Hx [C [E H]]]]]|[x [Hx [E H]]]].
      * split; [exact H|]. left. exists x. rewrite <- Ea. auto.
      * split; [rewrite <- Eo3; exact H|]. right.
        destruct (in_grels_inv _ _ Hx) as [r [t [Ex Hg]]]. exists r, t. split; [exact Hg|].
        subst x. exact E.
    + intros [H [[x [Hx [C E]]]|[r [t [Hg E]]]]].
      * left. right. exists x. rewrite Ea. auto.
      * right. exists (FRel r, t). split; [apply in_grels; exact Hg|]. rewrite Eo3. auto.
  - intros f t. rewrite Es. cbn [pending set_pending]. rewrite in_app_iff, in_gdefs.
    rewrite I3, C3, F3. cbn [move pending]. tauto.
  - rewrite Es. cbn [next_id set_pending]. rewrite I4, C4, F4. reflexivity.
  - rewrite Es. cbn [log set_pending]. rewrite I5, C5, F5. reflexivity.
Qed.
