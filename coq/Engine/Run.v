(* Engine/Run.v -- helpers for generated cases: API histories over handles, per-iteration traces of
   close/close_until, a boolean closedness test.  Definitions only (proofs are in FactsRun.v).
   All outputs are built from N, bool, list, option and pairs.

   Encoding of outputs:
     relation code  (false, r) = relation/function r      (true, t) = type set of t
     snap  = (facts, classes)   facts : list (code * row) (rows as stored: over roots whenever the state is
                                canonical, i.e. at every point recorded here)
                                classes : list (id, root) for all ids created so far
     close_out = None (out of fuel) | Some (evals, final, result)
                 evals = the states in which the condition was evaluated, in order: the state after the
                         initial canonicalize, then the state after each iteration (before apply_func_defs);
                         so  length evals - 1 = number of iterations (unless the start state satisfied cond)
                 final = the state returned
   Ids are allocated from one counter for all types (Model.v); the harness maps to per-type ids by rank
   of creation within the type, or compares up to renaming of non-handle elements. *)
From Coq Require Import List NArith Bool.
From Engine Require Import Model.
Import ListNotations.
Local Open Scope N_scope.

Inductive econd :=
  | ECFalse
  | ECPred (r : N) (hs : list N)          (* r(h..) holds *)
  | ECDefined (f : N) (hs : list N)       (* f(h..) is defined *)
  | ECEqual (a b : N)                     (* are_equal *)
  | ECAnd (a b : econd)
  | ECOr (a b : econd).

(* Handles: the k-th ENew/EDefine call (counting both, from 0) returns handle k. *)
Inductive Ecall :=
  | ENew (ty : N)
  | EInsert (r : N) (hs : list N)         (* for a function: arguments followed by the result *)
  | EDefine (f : N) (hs : list N)
  | EEquate (a b : N)
  | EClose
  | ECloseUntil (c : econd).

Definition handle (hd : list N) (h : N) : N := nth (N.to_nat h) hd 0.

Fixpoint eval_cond (hd : list N) (c : econd) (s : state) : bool :=
  match c with
  | ECFalse => false
  | ECPred r hs => mem (FRel r, map (rep s) (map (handle hd) hs)) (new s ++ old s)
  | ECDefined f hs =>
      match lookup_fun f (map (rep s) (map (handle hd) hs)) (new s ++ old s) with
      | Some _ => true | None => false end
  | ECEqual a b => N.eqb (rep s (handle hd a)) (rep s (handle hd b))
  | ECAnd a b => eval_cond hd a s && eval_cond hd b s
  | ECOr a b => eval_cond hd a s || eval_cond hd b s
  end.

Definition code := (bool * N)%type.
Definition code_of (r : frel) : code := match r with FRel x => (false, x) | FTySet t => (true, t) end.
Definition snap := (list (code * row) * list (N * N))%type.

Fixpoint ids_upto (n : nat) : list N :=
  match n with O => [] | S k => ids_upto k ++ [N.of_nat k] end.

Definition snapshot (s : state) : snap :=
  (map (fun x : fact => (code_of (fst x), snd x)) (old s ++ new s),
   map (fun x => (x, rep s x)) (ids_upto (N.to_nat (next_id s)))).

(* exec_loop, also returning the states in which the condition was evaluated *)
Fixpoint trace_loop (fuel : nat) (P : fprogram) (cond : state -> bool) (s : state)
  : option (list state * (state * bool)) :=
  match fuel with
  | O => None
  | S k =>
      let s1 := exec_iter P s in
      if cond s1 then Some ([s1], (apply_defs P s1, true))
      else
        let s' := if is_dirty s1 then s1 else apply_defs P s1 in
        if is_dirty s' then
          match trace_loop k P cond s' with
          | Some (l, r) => Some (s1 :: l, r)
          | None => None
          end
        else Some ([s1], (s', false))
  end.

Definition trace_close_until (fuel : nat) (P : fprogram) (cond : state -> bool) (s : state)
  : option (list state * (state * bool)) :=
  let s0 := canonicalize s in
  if cond s0 then Some ([s0], (s0, true))
  else match trace_loop fuel P cond (set_pending s0 []) with
       | Some (l, r) => Some (s0 :: l, r)
       | None => None
       end.

Definition close_out := option (list snap * snap * bool).

Record rstate := { rs_state : state; rs_handles : list N; rs_outs : list close_out; rs_stuck : bool }.

Definition do_close (fuel : nat) (P : fprogram) (c : econd) (r : rstate) : rstate :=
  match trace_close_until fuel P (eval_cond (rs_handles r) c) (rs_state r) with
  | Some (l, (s', b)) =>
      {| rs_state := s'; rs_handles := rs_handles r;
         rs_outs := rs_outs r ++ [Some (map snapshot l, snapshot s', b)]; rs_stuck := false |}
  | None =>
      {| rs_state := rs_state r; rs_handles := rs_handles r; rs_outs := rs_outs r ++ [None];
         rs_stuck := true |}
  end.

Definition step_call (fuel : nat) (P : fprogram) (r : rstate) (c : Ecall) : rstate :=
  if rs_stuck r then r else
  let s := rs_state r in
  let hd := rs_handles r in
  match c with
  | ENew ty =>
      let (s', e) := new_el ty s in
      {| rs_state := s'; rs_handles := hd ++ [e]; rs_outs := rs_outs r; rs_stuck := false |}
  | EInsert rl hs =>
      {| rs_state := insert (FRel rl, map (handle hd) hs) s; rs_handles := hd; rs_outs := rs_outs r;
         rs_stuck := false |}
  | EDefine f hs =>
      let (s', e) := define P f (map (handle hd) hs) s in
      {| rs_state := s'; rs_handles := hd ++ [e]; rs_outs := rs_outs r; rs_stuck := false |}
  | EEquate a b =>
      {| rs_state := equate (handle hd a) (handle hd b) s; rs_handles := hd; rs_outs := rs_outs r;
         rs_stuck := false |}
  | EClose => do_close fuel P ECFalse r
  | ECloseUntil c => do_close fuel P c r
  end.

Definition run_state (fuel : nat) (P : fprogram) (calls : list Ecall) : rstate :=
  fold_left (step_call fuel P) calls
            {| rs_state := init; rs_handles := []; rs_outs := []; rs_stuck := false |}.

(* (one entry per close/close_until call, final snapshot, element id of each handle, ran out of fuel?) *)
Definition run_engine (fuel : nat) (P : fprogram) (calls : list Ecall)
  : list close_out * snap * list N * bool :=
  let r := run_state fuel P calls in
  (rs_outs r, snapshot (rs_state r), rs_handles r, rs_stuck r).

(* iteration counts only (cheap to print) *)
Definition iter_counts (fuel : nat) (P : fprogram) (calls : list Ecall) : list (option N) :=
  map (fun o : close_out =>
         match o with
         | Some (l, _, _) => Some (N.of_nat (length l) - 1)
         | None => None
         end)
      (rs_outs (run_state fuel P calls)).

(* ---------- boolean closedness test ---------- *)
Definition all_ages (ru : frule) : frule :=
  {| fr_prem := map (fun a => {| fa_rel := fa_rel a; fa_args := fa_args a; fa_age := All |}) (fr_prem ru);
     fr_conc := fr_conc ru |}.

Definition sholds_b (s : state) (g : gconc) : bool :=
  match g with
  | GRel r t => mem (FRel r, map (rep s) t) (old s ++ new s)
  | GEq a b => N.eqb (rep s a) (rep s b)
  | GDef f t => match lookup_fun f (map (rep s) t) (old s ++ new s) with Some _ => true | None => false end
  end.

(* every conclusion of every match (over all rows) of every source rule holds *)
Definition closed_b (src : list frule) (s : state) : bool :=
  forallb (sholds_b s) (collect (map all_ages src) s).

(* a dumped structure (rows over root ids) as a state: everything old, rep = identity *)
Definition decode (c : code) : frel := if fst c then FTySet (snd c) else FRel (snd c).
Definition state_of_rows (rows : list (code * row)) : state :=
  {| rep := fun x => x; old := map (fun x => (decode (fst x), snd x)) rows; new := []; pending := [];
     next_id := 0; log := [] |}.
Definition closed_rows_b (src : list frule) (rows : list (code * row)) : bool :=
  closed_b src (state_of_rows rows).
