(* Engine/ExSemilattice.v -- the semilattice program of eqlog-test-eval, its emitted sub-rules encoded
   by hand from the header comments of the generated rule functions
   (target/.../eqlog-components/semilattice.eql/*.rs), and the facts about the family that the
   theorems need as hypotheses.  Used by the non-vacuity examples of Props_C0*.v.

     type El;  pred le(El, El);  func meet(El, El) -> El;
   relation numbers:  meet = 0 (function, 3 columns),  le = 1;   type El = 0. *)
From Coq Require Import List NArith Bool.
From Engine Require Import Model FactsBasic FactsInv FactsFam Run.
Import ListNotations.
Local Open Scope N_scope.

Definition A (r : N) (args : list N) (g : age) : fatom := {| fa_rel := FRel r; fa_args := args; fa_age := g |}.
Definition T (t : N) (x : N) (g : age) : fatom := {| fa_rel := FTySet t; fa_args := [x]; fa_age := g |}.
Definition R (p : list fatom) (c : list fconc) : frule := {| fr_prem := p; fr_conc := c |}.

Definition meet : N := 0.
Definition le : N := 1.
Definition El : N := 0.

(* source flat rules (ages are irrelevant here), variables numbered as in the generated comments *)
Definition semi_rules : list frule := [
  (* rule 0 *) R [T El 0 All] [CRel le [0; 0]];
  (* rule 1 *) R [A le [0; 1] All; A le [1; 2] All] [CRel le [0; 2]];
  (* rule 2 *) R [A le [0; 1] All; A le [1; 0] All] [CEq 0 1; CEq 1 0];
  (* rule 3 *) R [T El 0 All; T El 1 All] [CDef meet [0; 1]];
  (* rule 4, stage 0 *) R [A meet [1; 2; 0] All] [CRel le [0; 1]];
  (* rule 4, stage 1 *) R [A meet [1; 2; 0] All] [CRel le [0; 2]];
  (* rule 5 *) R [A le [0; 1] All; A le [0; 2] All; A meet [1; 2; 3] All] [CRel le [0; 3]]
].
Definition semi_src : list frule := [func_rule meet 2] ++ semi_rules.

(* emitted sub-rules, in the order in which close_until calls the rule functions, atoms in the printed order *)
Definition semi_em : list frule := [
  (* functionality_0 *)       R [A meet [0; 1; 2] New; A meet [0; 1; 3] All] [CEq 2 3];
  (* anonymous_rule_0_0_0 *)  R [T El 0 New] [CRel le [0; 0]];
  (* anonymous_rule_1_0_0 *)  R [A le [0; 1] New; A le [1; 2] Old] [CRel le [0; 2]];
  (* anonymous_rule_1_0_1 *)  R [A le [1; 2] New; A le [0; 1] All] [CRel le [0; 2]];
  (* anonymous_rule_2_0_0 *)  R [A le [0; 1] New; A le [1; 0] Old] [CEq 0 1; CEq 1 0];
  (* anonymous_rule_2_0_1 *)  R [A le [1; 0] New; A le [0; 1] All] [CEq 0 1; CEq 1 0];
  (* anonymous_rule_3_0_0 *)  R [T El 0 New; T El 1 Old] [CDef meet [0; 1]];
  (* anonymous_rule_3_0_1 *)  R [T El 1 New; T El 0 All] [CDef meet [0; 1]];
  (* anonymous_rule_4_0_0 *)  R [A meet [1; 2; 0] New] [CRel le [0; 1]];
  (* anonymous_rule_4_1_0 *)  R [A meet [1; 2; 0] New] [CRel le [0; 2]];
  (* anonymous_rule_5_0_0 *)  R [A le [0; 1] New; A le [0; 2] Old; A meet [1; 2; 3] Old] [CRel le [0; 3]];
  (* anonymous_rule_5_0_1 *)  R [A le [0; 2] New; A le [0; 1] All; A meet [1; 2; 3] Old] [CRel le [0; 3]];
  (* anonymous_rule_5_0_2 *)  R [A meet [1; 2; 3] New; A le [0; 1] All; A le [0; 2] All] [CRel le [0; 3]]
].

Definition semi : fprogram :=
  {| fp_arity := [(meet, 3, true); (le, 2, false)]; fp_restype := [(meet, El)]; fp_rules := semi_em |}.

(* the family computed by the Gallina copy of to_semi_naive (+ the single functionality sub-rule) *)
Definition semi_ref : list frule := [func_sub meet 2] ++ emit semi_rules.

Lemma semi_wf : wf_rules (fp_rules semi).
Proof. apply wf_rules_b_sound. vm_compute. reflexivity. Qed.

Lemma semi_src_wf : wf_rules semi_src.
Proof. apply wf_rules_b_sound. vm_compute. reflexivity. Qed.

Lemma semi_FamOK : FamOK semi_src (fp_rules semi).
Proof.
  apply FamOK_cover with (em := semi_ref).
  - apply FamOK_app; [apply FamOK_func | apply emit_FamOK].
  - apply covers_b_sound. vm_compute. reflexivity.
Qed.

Lemma semi_FamSound : FamSound semi_src (fp_rules semi).
Proof.
  apply FamSound_cover with (em := semi_ref).
  - apply FamSound_app; [apply FamSound_func | apply emit_FamSound].
  - apply covers_b_sound. vm_compute. reflexivity.
Qed.

(* histories *)
Definition hist_chain : list Ecall :=            (* a <= b, then close *)
  [ENew El; ENew El; EInsert le [0; 1]].
Definition hist_two : list Ecall :=              (* two unrelated generators *)
  [ENew El; ENew El].
Definition hist_cycle : list Ecall :=            (* a <= b <= c <= a, closed in two steps *)
  [ENew El; ENew El; ENew El; EInsert le [0; 1]; EInsert le [1; 2]; EClose; EInsert le [2; 0]].

Definition st (calls : list Ecall) : state := rs_state (run_state 40 semi calls).

(* the poset part (no `!`), for C06 *)
Definition poset_rules : list frule := firstn 3 semi_rules.
Definition poset : fprogram :=
  {| fp_arity := [(le, 2, false)]; fp_restype := []; fp_rules := emit poset_rules |}.
Definition poset_hist : list Ecall :=
  [ENew El; ENew El; ENew El; EInsert le [0; 1]; EInsert le [1; 2]; EInsert le [2; 1]].
Definition poset_st : state := rs_state (run_state 0 poset poset_hist).


(* a condition for C07: meet(h0,h1) is defined *)
Definition c_meet : state -> bool := eval_cond [0; 1] (ECDefined meet [0; 1]).
