(* Engine/FactsStep.v -- a uniform "the model only grows" relation [stp] between states, established
   for every operation, and the invariants of reachable states that follow from it:
     LogOK    : log entries are (e, f, a) with distinct e < next_id and all ids of a below e;
     LogHolds : the row f(a) = e that created e is still present (modulo the partition);
     AHolds   : every asserted fact holds (modulo the partition);
     AIds     : asserted facts mention existing ids only.
   Used by the least-model characterisation (FactsLeast.v, FactsIso.v). *)
From Coq Require Import List Arith NArith Bool Lia.
From Engine Require Import Model FactsBasic FactsInv FactsOps FactsClose FactsIds.
Import ListNotations.
Local Open Scope N_scope.
Arguments N.add : simpl never.
Arguments N.eqb : simpl never.

(* a fact holds modulo the partition *)
Definition fholds (s : state) (x : fact) : Prop :=
  exists t0, In (fst x, t0) (allf s) /\ canon (rep s) t0 = canon (rep s) (snd x).

Definition key (x : N * N * row) : N := fst (fst x).

Record stp (s s' : state) : Prop := {
  st_coarse : forall x, rep s' (rep s x) = rep s' x;
  st_facts : forall x, In x (allf s) -> fholds s' x;
  st_id : next_id s <= next_id s';
  st_log : exists L', log s' = L' ++ log s /\ NoDup (map key L') /\
      forall e f a, In (e, f, a) L' ->
        next_id s <= e /\ e < next_id s' /\ ids_lt e a /\ fholds s' (FRel f, a ++ [e])
}.

Lemma fholds_pers s s' x : stp s s' -> fholds s x -> fholds s' x.
Proof.
  intros St [t0 [Hin E]]. destruct (st_facts _ _ St _ Hin) as [t' [Hin' E']]. cbn [fst snd] in *.
  exists t'. split; [exact Hin'|]. rewrite E'. eapply canon_transfer; [apply (st_coarse _ _ St) | exact E].
Qed.

Lemma fholds_in s x : Idem s -> In x (allf s) -> fholds s x.
Proof. intros _ H. exists (snd x). rewrite <- surjective_pairing. auto. Qed.

Lemma stp_refl s : Idem s -> stp s s.
Proof.
  intros Hid. constructor; [exact Hid | intros x Hx; apply fholds_in; assumption | lia |].
  exists []. split; [reflexivity|]. split; [constructor|]. intros e f a [].
Qed.

Lemma nodup_app {X} (a b : list X) :
  NoDup a -> NoDup b -> (forall x, In x a -> ~ In x b) -> NoDup (a ++ b).
Proof.
  induction a as [|x a IH]; intros Ha Hb Hd; cbn [app]; [exact Hb|].
  inversion Ha as [|? ? Hx Ha']; subst. constructor.
  - rewrite in_app_iff. intros [H|H]; [auto|]. apply (Hd x); [left; reflexivity | exact H].
  - apply IH; auto. intros y Hy. apply Hd. right. exact Hy.
Qed.

Lemma stp_trans s1 s2 s3 : stp s1 s2 -> stp s2 s3 -> stp s1 s3.
Proof.
  intros A B. destruct (st_log _ _ A) as [L1 [E1 [N1 H1]]]. destruct (st_log _ _ B) as [L2 [E2 [N2 H2]]].
  pose proof (st_id _ _ A) as I1. pose proof (st_id _ _ B) as I2.
  constructor.
  - intros x. rewrite <- (st_coarse _ _ B (rep s1 x)), (st_coarse _ _ A x). apply (st_coarse _ _ B).
  - intros x Hx. eapply fholds_pers; [exact B|]. apply (st_facts _ _ A). exact Hx.
  - lia.
  - exists (L2 ++ L1). split; [rewrite E2, E1, app_assoc; reflexivity|]. split.
    + rewrite map_app. apply nodup_app; auto. intros k Hk2 Hk1.
      apply in_map_iff in Hk2. destruct Hk2 as [[[e2 f2] a2] [<- Hi2]].
      apply in_map_iff in Hk1. destruct Hk1 as [[[e1 f1] a1] [Ek Hi1]].
      destruct (H2 _ _ _ Hi2) as [G2 _]. destruct (H1 _ _ _ Hi1) as [_ [G1 _]].
      unfold key in Ek. cbn [fst] in Ek. subst e1. lia.
    + intros e f a Hin. apply in_app_or in Hin. destruct Hin as [Hin|Hin].
      * destruct (H2 _ _ _ Hin) as [G1 [G2 [G3 G4]]]. repeat split; auto. lia.
      * destruct (H1 _ _ _ Hin) as [G1 [G2 [G3 G4]]]. repeat split; auto; [lia|].
        eapply fholds_pers; eauto.
Qed.

(* steps that change neither next_id nor the log *)
Lemma stp_same s s' :
  (forall x, rep s' (rep s x) = rep s' x) -> (forall x, In x (allf s) -> fholds s' x) ->
  next_id s' = next_id s -> log s' = log s -> stp s s'.
Proof.
  intros H1 H2 H3 H4. constructor; auto; [lia|]. exists []. split; [exact H4|]. split; [constructor|].
  intros e f a [].
Qed.

Lemma ext_facts s s' : ext s s' -> forall x, In x (allf s) -> fholds s' x.
Proof. intros E x Hx. exists (snd x). rewrite <- surjective_pairing. split; [eapply ext_allf; eauto | reflexivity]. Qed.

Lemma ext_coarse s s' : Idem s -> ext s s' -> forall x, rep s' (rep s x) = rep s' x.
Proof. intros Hid E x. rewrite (ext_rep _ _ E). apply Hid. Qed.

Lemma stp_insert x s : Idem s -> stp s (insert x s).
Proof.
  intros Hid. destruct (insert_fields x s) as [_ [_ [_ [F4 F5]]]].
  apply stp_same; auto; [apply ext_coarse; [exact Hid | apply insert_ext] | apply ext_facts; apply insert_ext].
Qed.

Lemma stp_insert_all l : forall s, Idem s -> stp s (insert_all l s).
Proof.
  induction l as [|x l IH]; intros s Hid; cbn [insert_all fold_left]; [apply stp_refl; exact Hid|].
  fold (insert_all l (insert x s)). eapply stp_trans; [apply stp_insert; exact Hid|].
  apply IH. eapply ext_idem; [apply insert_ext | exact Hid].
Qed.

Lemma stp_equate a b s : Idem s -> stp s (equate a b s).
Proof.
  intros Hid. destruct (equate_fields a b s) as [F1 [F2 [_ [F4 F5]]]].
  apply stp_same; auto; [intros x; apply equate_coarse; exact Hid|].
  intros x Hx. exists (snd x). rewrite <- surjective_pairing. split; [|reflexivity].
  unfold allf. rewrite F1, F2. exact Hx.
Qed.

Lemma stp_canonicalize s : Idem s -> stp s (canonicalize s).
Proof.
  intros Hid. destruct (canonicalize_fields s) as [F1 [_ [F4 F5]]].
  apply stp_same; auto; [intros x; rewrite F1; apply Hid|].
  intros x Hx. unfold fholds. rewrite F1. apply canonicalize_facts; assumption.
Qed.

Lemma stp_set_pending s p : Idem s -> stp s (set_pending s p).
Proof.
  intros Hid. apply stp_same; auto. intros x Hx. apply fholds_in; [exact Hid | exact Hx].
Qed.

Lemma stp_new_el ty s : Idem s -> stp s (fst (new_el ty s)).
Proof.
  intros Hid. pose proof (new_el_ext ty s) as E. constructor.
  - exact (ext_coarse _ _ Hid E).
  - exact (ext_facts _ _ E).
  - unfold new_el. cbn [fst next_id]. lia.
  - exists []. split; [reflexivity|]. split; [constructor|]. intros e f a [].
Qed.

Lemma stp_iter P s : wf_rules (fp_rules P) -> Idem s -> stp s (exec_iter P s).
Proof.
  intros Hwf Hid. pose proof (exec_iter_astep P s Hwf Hid) as St.
  apply stp_same.
  - apply (rep_coarse _ _ _ _ St).
  - intros x Hx. apply (step_facts _ _ _ _ St x Hx).
  - apply (id_same _ _ _ _ St).
  - apply (log_same _ _ _ _ St).
Qed.

Lemma stp_define P f t s : WF s -> ids_lt (next_id s) t -> stp s (fst (define P f t s)).
Proof.
  intros HW Ht. pose proof (wf_idem _ HW) as Hid. pose proof (define_ext P f t s) as E.
  constructor.
  - exact (ext_coarse _ _ Hid E).
  - exact (ext_facts _ _ E).
  - apply define_next_id_le.
  - destruct (define_cases P f t s) as [[v [_ Ed]]|[_ Ed]]; rewrite Ed; cbn [fst].
    + exists []. split; [reflexivity|]. split; [constructor|]. intros e f' a [].
    + set (a := map (rep s) t). set (s1 := with_fresh P f a s). set (x := (FRel f, a ++ [next_id s])).
      destruct (insert_fields x s1) as [Fr [_ [_ [F4 F5]]]].
      exists [(next_id s, f, a)]. split; [rewrite F5; reflexivity|]. split; [repeat constructor; intros []|].
      intros e f' a' [Eq|[]]. inversion Eq; subst e f' a'. rewrite F4. cbn [s1 with_fresh next_id].
      split; [lia|]. split; [lia|]. split; [apply ids_lt_map; [apply (wf_ids _ HW) | exact Ht]|].
      exists (canon (rep s1) (snd x)). split; [apply (insert_present x s1)|].
      rewrite Fr. apply canon_canon. exact Hid.
Qed.

Lemma stp_defs_fold P l : forall s, WF s -> (forall f t, In (f, t) l -> ids_lt (next_id s) t) ->
  stp s (defs_fold P l s).
Proof.
  induction l as [|[f t] l IH]; intros s HW Hl; cbn [defs_fold fold_left fst snd];
    [apply stp_refl; apply (wf_idem _ HW)|].
  fold (defs_fold P l (fst (define P f t s))).
  assert (Ht : ids_lt (next_id s) t) by (apply (Hl f t); left; reflexivity).
  eapply stp_trans; [exact (stp_define P f t s HW Ht)|]. apply IH; [exact (WF_define P f t s HW Ht)|].
  intros f' t' Hin. eapply ids_lt_mono; [apply define_next_id_le|]. apply (Hl f' t'). right. exact Hin.
Qed.

Lemma stp_apply_defs P s : WF s -> stp s (apply_defs P s).
Proof.
  intros HW. unfold apply_defs. fold (defs_fold P (pending s) (set_pending s [])).
  eapply stp_trans; [apply (stp_set_pending s []); apply (wf_idem _ HW)|].
  apply stp_defs_fold.
  - apply WF_set_pending; [exact HW|]. intros f t [].
  - cbn [set_pending next_id]. apply (ids_pend _ (wf_ids _ HW)).
Qed.

Lemma stp_loop P cond fuel : wf_rules (fp_rules P) -> forall s r b,
  WF s -> exec_loop fuel P cond s = Some (r, b) -> stp s r.
Proof.
  intros Hwf. induction fuel as [|k IH]; intros s r b HW H; cbn [exec_loop] in H; [discriminate|].
  pose proof (stp_iter P s Hwf (wf_idem _ HW)) as S1. pose proof (WF_iter P s Hwf HW) as W1.
  pose proof (stp_apply_defs P _ W1) as S2. pose proof (WF_apply_defs P _ W1) as W2.
  destruct (cond (exec_iter P s)).
  - inversion H; subst. eapply stp_trans; eauto.
  - destruct (is_dirty (exec_iter P s)); [eapply stp_trans; [exact S1 | exact (IH _ _ _ W1 H)]|].
    destruct (is_dirty (apply_defs P (exec_iter P s))).
    + eapply stp_trans; [exact S1|]. eapply stp_trans; [exact S2 | exact (IH _ _ _ W2 H)].
    + inversion H; subst. eapply stp_trans; eauto.
Qed.

Lemma stp_close_until P cond fuel s r b : wf_rules (fp_rules P) ->
  WF s -> exec_close_until fuel P cond s = Some (r, b) -> stp s r.
Proof.
  intros Hwf HW H. unfold exec_close_until in H.
  pose proof (stp_canonicalize s (wf_idem _ HW)) as S0. pose proof (WF_canonicalize s HW) as W0.
  destruct (cond (canonicalize s)); [inversion H; subst; exact S0|].
  eapply stp_trans; [exact S0|].
  eapply stp_trans; [apply (stp_set_pending _ []); apply (wf_idem _ W0)|].
  eapply stp_loop; [exact Hwf| |exact H]. apply WF_set_pending; [exact W0|]. intros f t [].
Qed.

(* ---------- invariants that follow ---------- *)
Definition LogOK (s : state) : Prop :=
  NoDup (map key (log s)) /\ forall e f a, In (e, f, a) (log s) -> e < next_id s /\ ids_lt e a.
Definition LogHolds (s : state) : Prop :=
  forall e f a, In (e, f, a) (log s) -> fholds s (FRel f, a ++ [e]).

Lemma LogOK_stp s s' : stp s s' -> LogOK s -> LogOK s'.
Proof.
  intros St [Hn Hl]. destruct (st_log _ _ St) as [L' [E [N' H']]]. pose proof (st_id _ _ St) as Hi.
  split; rewrite E.
  - rewrite map_app. apply nodup_app; auto. intros k Hk' Hk.
    apply in_map_iff in Hk'. destruct Hk' as [[[e2 f2] a2] [<- Hi2]].
    apply in_map_iff in Hk. destruct Hk as [[[e1 f1] a1] [Ek Hi1]].
    destruct (H' _ _ _ Hi2) as [G2 _]. destruct (Hl _ _ _ Hi1) as [G1 _].
    unfold key in Ek. cbn [fst] in Ek. subst e1. lia.
  - intros e f a Hin. apply in_app_or in Hin. destruct Hin as [Hin|Hin].
    + destruct (H' _ _ _ Hin) as [_ [G2 [G3 _]]]. auto.
    + destruct (Hl _ _ _ Hin) as [G1 G2]. split; [lia | exact G2].
Qed.

Lemma LogHolds_stp s s' : stp s s' -> LogHolds s -> LogHolds s'.
Proof.
  intros St Hl e f a Hin. destruct (st_log _ _ St) as [L' [E [_ H']]]. rewrite E in Hin.
  apply in_app_or in Hin. destruct Hin as [Hin|Hin].
  - apply (H' _ _ _ Hin).
  - eapply fholds_pers; [exact St | apply Hl; exact Hin].
Qed.

(* ids mentioned by an asserted fact *)
Definition dids (d : dfact) : list N :=
  match d with DRow _ t => t | DEq a b => [a; b] | DDef _ t => t end.

(* an asserted fact holds modulo the partition *)
Definition dholdsm (s : state) (d : dfact) : Prop :=
  match d with
  | DRow r t => fholds s (r, t)
  | DEq a b => rep s a = rep s b
  | DDef f t => exists t0 v, In (FRel f, t0) (allf s) /\ canon (rep s) t0 = canon (rep s) t ++ [v]
  end.

Lemma dholdsm_pers s s' d : stp s s' -> dholdsm s d -> dholdsm s' d.
Proof.
  intros St. destruct d as [r t|a b|f t]; cbn [dholdsm].
  - apply fholds_pers. exact St.
  - intros E. rewrite <- (st_coarse _ _ St a), <- (st_coarse _ _ St b). congruence.
  - intros [t0 [v [Hin E]]]. destruct (st_facts _ _ St _ Hin) as [t' [Hin' E']]. cbn [fst snd] in *.
    exists t', (rep s' v). split; [exact Hin'|]. rewrite E'.
    eapply canon_transfer_app; [apply (st_coarse _ _ St) | exact E].
Qed.

Definition AHolds (A : list dfact) (s : state) : Prop := forall d, In d A -> dholdsm s d.
Definition AIds (A : list dfact) (s : state) : Prop := forall d, In d A -> ids_lt (next_id s) (dids d).

(* elements created by new_ are not in the log *)
Definition NL (A : list dfact) (s : state) : Prop :=
  forall ty e, In (DRow (FTySet ty) [e]) A -> ~ In e (map key (log s)).

Record RInv (A : list dfact) (s : state) : Prop := {
  ri_wf : WF s; ri_log : LogOK s; ri_holds : LogHolds s; ri_a : AHolds A s; ri_ids : AIds A s; ri_nl : NL A s
}.

Lemma RInv_stp A s s' : WF s' -> stp s s' -> RInv A s -> RInv A s'.
Proof.
  intros HW St [_ H1 H2 H3 H4 H5]. constructor; [exact HW | eapply LogOK_stp; eauto | eapply LogHolds_stp; eauto | | |].
  - intros d Hd. eapply dholdsm_pers; [exact St | apply H3; exact Hd].
  - intros d Hd. eapply ids_lt_mono; [apply (st_id _ _ St) | apply H4; exact Hd].
  - intros ty e Hin Hk. destruct (st_log _ _ St) as [L' [E [_ H']]]. rewrite E, map_app in Hk.
    apply in_app_or in Hk. destruct Hk as [Hk|Hk]; [|exact (H5 ty e Hin Hk)].
    apply in_map_iff in Hk. destruct Hk as [[[e2 f2] a2] [Ek Hi2]]. unfold key in Ek. cbn [fst] in Ek. subst e2.
    destruct (H' _ _ _ Hi2) as [G _]. pose proof (H4 _ Hin) as Hl. cbn [dids] in Hl. inversion Hl; subst. lia.
Qed.

Lemma RInv_cons A s d : RInv A s -> dholdsm s d -> ids_lt (next_id s) (dids d) ->
  (forall ty e, d = DRow (FTySet ty) [e] -> ~ In e (map key (log s))) -> RInv (d :: A) s.
Proof.
  intros [H0 H1 H2 H3 H4 H5] Hd Hi Hn. constructor; auto.
  - intros d' [<-|Hin]; [exact Hd | apply H3; exact Hin].
  - intros d' [<-|Hin]; [exact Hi | apply H4; exact Hin].
  - intros ty e [E|Hin]; [apply (Hn ty e E) | apply (H5 ty e Hin)].
Qed.

Theorem Reach_RInv P A s : wf_rules (fp_rules P) -> Reach P A s -> RInv A s.
Proof.
  intros Hwf. induction 1 as [|A s ty HRe IH|A s r t HRe IH Hb|A s f t HRe IH Hb|A s a b HRe IH Ha Hb
                              |A s fuel cond r b HRe IH Hc].
  - constructor; [apply WF_init | split; [constructor | intros e f a []] | intros e f a [] | intros d []
                  | intros d [] | intros ty e []].
  - pose proof (ri_wf _ _ IH) as HW. pose proof (WF_new_el ty s HW) as HW'.
    apply RInv_cons; [eapply RInv_stp; [exact HW' | apply stp_new_el; apply (wf_idem _ HW) | exact IH]| | |].
    + cbn [dholdsm]. exists [next_id s]. split; [|reflexivity]. unfold new_el, allf. cbn [fst snd old new].
      apply in_or_app. right. apply in_or_app. right. left. reflexivity.
    + cbn [dids]. unfold new_el. cbn [fst next_id]. constructor; [lia | constructor].
    + intros ty' e E Hk. inversion E; subst e. unfold new_el in Hk. cbn [fst log] in Hk.
      apply in_map_iff in Hk. destruct Hk as [[[e2 f2] a2] [Ek Hi2]]. unfold key in Ek. cbn [fst] in Ek. subst e2.
      destruct (proj2 (ri_log _ _ IH) _ _ _ Hi2) as [G _]. lia.
  - pose proof (ri_wf _ _ IH) as HW. pose proof (WF_insert (FRel r, t) s HW Hb) as HW'.
    destruct (insert_fields (FRel r, t) s) as [Fr [_ [_ [F4 _]]]].
    apply RInv_cons; [eapply RInv_stp; [exact HW' | apply stp_insert; apply (wf_idem _ HW) | exact IH]| | |].
    + cbn [dholdsm]. exists (canon (rep s) t). split; [apply (insert_present (FRel r, t) s)|].
      rewrite Fr. apply canon_canon. apply (wf_idem _ HW).
    + cbn [dids]. rewrite F4. exact Hb.
    + intros ty e E. discriminate.
  - pose proof (ri_wf _ _ IH) as HW. pose proof (WF_define P f t s HW Hb) as HW'.
    apply RInv_cons; [eapply RInv_stp; [exact HW' | apply stp_define; assumption | exact IH]| | |].
    + cbn [dholdsm]. apply (define_defined P f t s (wf_idem _ HW)).
    + cbn [dids]. eapply ids_lt_mono; [apply define_next_id_le | exact Hb].
    + intros ty e E. discriminate.
  - pose proof (ri_wf _ _ IH) as HW. pose proof (WF_equate a b s HW Ha Hb) as HW'.
    destruct (equate_fields a b s) as [_ [_ [_ [F4 _]]]].
    apply RInv_cons; [eapply RInv_stp; [exact HW' | apply stp_equate; apply (wf_idem _ HW) | exact IH]| | |].
    + cbn [dholdsm]. apply equate_eq.
    + cbn [dids]. rewrite F4. constructor; [exact Ha | constructor; [exact Hb | constructor]].
    + intros ty e E. discriminate.
  - pose proof (ri_wf _ _ IH) as HW.
    eapply RInv_stp; [eapply WF_close_until; eauto | eapply stp_close_until; eauto | exact IH].
Qed.
