(* Engine/FactsRun.v -- the helpers of Run.v agree with the model; the boolean closedness test is sound. *)
From Coq Require Import List Arith NArith Bool Lia.
From Engine Require Import Model FactsBasic FactsInv Run.
Import ListNotations.
Local Open Scope N_scope.
Arguments N.eqb : simpl never.

Lemma trace_loop_exec P cond fuel : forall s,
  exec_loop fuel P cond s = option_map snd (trace_loop fuel P cond s).
Proof.
  induction fuel as [|k IH]; intros s; cbn [exec_loop trace_loop]; [reflexivity|].
  destruct (cond (exec_iter P s)); [reflexivity|].
  destruct (is_dirty (exec_iter P s)) eqn:Ed.
  - rewrite Ed. rewrite IH. destruct (trace_loop k P cond (exec_iter P s)) as [[l r]|]; reflexivity.
  - destruct (is_dirty (apply_defs P (exec_iter P s))) eqn:Ed2.
    + rewrite IH. destruct (trace_loop k P cond (apply_defs P (exec_iter P s))) as [[l r]|]; reflexivity.
    + reflexivity.
Qed.

Lemma trace_close_until_exec P cond fuel s :
  exec_close_until fuel P cond s = option_map snd (trace_close_until fuel P cond s).
Proof.
  unfold exec_close_until, trace_close_until. destruct (cond (canonicalize s)); [reflexivity|].
  rewrite trace_loop_exec. destruct (trace_loop fuel P cond (set_pending (canonicalize s) [])) as [[l r]|]; reflexivity.
Qed.

Lemma count_loop_trace P cond fuel : forall s,
  count_loop fuel P cond s = option_map (fun x => N.of_nat (length (fst x))) (trace_loop fuel P cond s).
Proof.
  induction fuel as [|k IH]; intros s; cbn [count_loop trace_loop]; [reflexivity|].
  destruct (cond (exec_iter P s)); [reflexivity|].
  set (s' := if is_dirty (exec_iter P s) then exec_iter P s else apply_defs P (exec_iter P s)).
  destruct (is_dirty s'); [|reflexivity].
  rewrite IH. destruct (trace_loop k P cond s') as [[l r]|]; cbn [option_map fst length]; [|reflexivity].
  rewrite Nnat.Nat2N.inj_succ, N.add_1_r. reflexivity.
Qed.

Lemma all_ages_wf src : wf_rules src -> wf_rules (map all_ages src).
Proof.
  unfold wf_rules. rewrite !Forall_forall. intros H ru' Hin. apply in_map_iff in Hin.
  destruct Hin as [ru [<- Hru]]. intros c x Hc Hx. specialize (H ru Hru c x Hc Hx).
  unfold all_ages, prem_vars in *. cbn [fr_prem fr_conc] in *. rewrite flat_map_concat_map, map_map.
  rewrite <- flat_map_concat_map. exact H.
Qed.

Lemma sholds_b_sound s g : sholds_b s g = true -> sholds s g.
Proof.
  destruct g as [r t|a b|f t]; cbn [sholds_b sholds]; unfold allf, canon.
  - apply mem_In.
  - apply N.eqb_eq.
  - destruct (lookup_fun f (map (rep s) t) (old s ++ new s)) as [v|] eqn:L; [|discriminate].
    intros _. exists v. apply lookup_fun_Some. exact L.
Qed.

Theorem closed_b_sound src s : wf_rules src -> closed_b src s = true -> Closed src s.
Proof.
  intros Hwf H ru sg Hru Hm c Hc. apply sholds_b_sound. unfold closed_b in H.
  rewrite forallb_forall in H. apply H.
  apply collect_complete with (ru := all_ages ru).
  - apply all_ages_wf. exact Hwf.
  - apply in_map. exact Hru.
  - unfold aged_match, all_ages. cbn [fr_prem]. apply Forall_forall. intros a' Ha'.
    apply in_map_iff in Ha'. destruct Ha' as [a [<- Ha]]. cbn [fa_age tbl].
    unfold is_match in Hm. rewrite Forall_forall in Hm. specialize (Hm a Ha).
    unfold atom_in, allf in *. cbn [fa_rel fa_args]. rewrite in_app_iff in *. tauto.
  - exact Hc.
Qed.

(* ---------- states produced by run_state are reachable ---------- *)
From Engine Require Import FactsOps FactsClose FactsIds.

Definition hs_ok (n : nat) (hs : list N) : bool := forallb (fun h => Nat.ltb (N.to_nat h) n) hs.
Definition call_ok (n : nat) (c : Ecall) : bool :=
  match c with
  | ENew _ | EClose | ECloseUntil _ => true
  | EInsert _ hs | EDefine _ hs => hs_ok n hs
  | EEquate a b => hs_ok n [a; b]
  end.
Fixpoint calls_ok (n : nat) (l : list Ecall) : bool :=
  match l with
  | [] => true
  | c :: l' => call_ok n c && calls_ok (match c with ENew _ | EDefine _ _ => S n | _ => n end) l'
  end.

Lemma handle_lt hd h n : Forall (fun e => e < n) hd -> (N.to_nat h < length hd)%nat -> handle hd h < n.
Proof.
  intros H Hl. unfold handle. rewrite Forall_forall in H. apply H. apply nth_In. exact Hl.
Qed.

Lemma handles_lt hd hs n : Forall (fun e => e < n) hd -> hs_ok (length hd) hs = true ->
  ids_lt n (map (handle hd) hs).
Proof.
  intros H Hok. unfold hs_ok in Hok. rewrite forallb_forall in Hok. unfold ids_lt.
  apply Forall_forall. intros v Hv. apply in_map_iff in Hv. destruct Hv as [h [<- Hh]].
  apply handle_lt; [exact H|]. apply Nat.ltb_lt. apply Hok. exact Hh.
Qed.

Definition RI (P : fprogram) (n : nat) (r : rstate) : Prop :=
  Reachable P (rs_state r) /\ Forall (fun e => e < next_id (rs_state r)) (rs_handles r) /\
  (rs_stuck r = false -> length (rs_handles r) = n).

Lemma Forall_lt_mono (l : list N) n m : n <= m -> Forall (fun e => e < n) l -> Forall (fun e => e < m) l.
Proof. intros Hle. apply Forall_impl. intros a Ha. lia. Qed.

Lemma do_close_RI fuel P c n r : rs_stuck r = false -> RI P n r -> RI P n (do_close fuel P c r).
Proof.
  intros Hs [[A HR] [Hh Hn]]. unfold do_close.
  pose proof (trace_close_until_exec P (eval_cond (rs_handles r) c) fuel (rs_state r)) as E.
  destruct (trace_close_until fuel P (eval_cond (rs_handles r) c) (rs_state r)) as [[l [s' b]]|];
    cbn [option_map snd] in E.
  - split; [|split]; cbn [rs_state rs_handles rs_stuck].
    + exists A. eapply R_close; eauto.
    + eapply Forall_lt_mono; [|exact Hh]. eapply close_until_next_id_le; eauto.
    + intros _. apply Hn. exact Hs.
  - split; [|split]; cbn [rs_state rs_handles rs_stuck]; [exists A; exact HR | exact Hh | discriminate].
Qed.

Lemma step_call_RI fuel P n r c :
  wf_rules (fp_rules P) -> call_ok n c = true -> RI P n r ->
  RI P (match c with ENew _ | EDefine _ _ => S n | _ => n end) (step_call fuel P r c).
Proof.
  intros Hwf Hok HRI. unfold step_call. destruct (rs_stuck r) eqn:Es.
  { destruct HRI as [HR [Hh Hn]]. split; [exact HR|]. split; [exact Hh|]. intros E. congruence. }
  pose proof HRI as [[A HR] [Hh Hn]]. specialize (Hn Es).
  destruct c as [ty|rl hs|f hs|a b| |cc]; cbn [call_ok] in Hok.
  - unfold new_el. split; [|split]; cbn [rs_state rs_handles rs_stuck next_id].
    + eexists. apply (R_new P A (rs_state r) ty HR).
    + apply Forall_app. split; [eapply Forall_lt_mono; [|exact Hh]; lia|]. constructor; [lia|constructor].
    + intros _. rewrite app_length. cbn [length]. lia.
  - rewrite <- Hn in Hok. pose proof (handles_lt _ _ _ Hh Hok) as Hlt.
    split; [|split]; cbn [rs_state rs_handles rs_stuck].
    + eexists. apply (R_insert P A (rs_state r) rl _ HR Hlt).
    + destruct (insert_fields (FRel rl, map (handle (rs_handles r)) hs) (rs_state r)) as [_ [_ [_ [F4 _]]]].
      rewrite F4. exact Hh.
    + intros _. exact Hn.
  - rewrite <- Hn in Hok. pose proof (handles_lt _ _ _ Hh Hok) as Hlt.
    pose proof (R_define P A (rs_state r) f _ HR Hlt) as HR'.
    pose proof (define_next_id_le P f (map (handle (rs_handles r)) hs) (rs_state r)) as Hle.
    assert (Hres : snd (define P f (map (handle (rs_handles r)) hs) (rs_state r)) <
                   next_id (fst (define P f (map (handle (rs_handles r)) hs) (rs_state r)))).
    { destruct (define_cases P f (map (handle (rs_handles r)) hs) (rs_state r)) as [[v [L E]]|[_ E]];
        rewrite E; cbn [fst snd].
      - apply lookup_fun_Some in L.
        pose proof (ids_rows _ (wf_ids _ (Reach_WF P A (rs_state r) Hwf HR))) as HI.
        assert (Hall : In (FRel f, map (rep (rs_state r)) (map (handle (rs_handles r)) hs) ++ [v]) (allf (rs_state r))).
        { unfold allf. apply in_app_or in L. apply in_or_app. tauto. }
        specialize (HI _ Hall). cbn [snd] in HI. unfold ids_lt in HI. rewrite Forall_forall in HI.
        apply HI. apply in_or_app. right. left. reflexivity.
      - match goal with |- context [insert ?x ?s0] => destruct (insert_fields x s0) as [_ [_ [_ [F4 _]]]] end.
        rewrite F4. cbn [with_fresh next_id]. lia. }
    destruct (define P f (map (handle (rs_handles r)) hs) (rs_state r)) as [s' e] eqn:Ed.
    cbn [fst snd] in *. split; [|split]; cbn [rs_state rs_handles rs_stuck].
    + eexists. exact HR'.
    + apply Forall_app. split; [eapply Forall_lt_mono; [|exact Hh]; exact Hle|]. constructor; [exact Hres|constructor].
    + intros _. rewrite app_length. cbn [length]. lia.
  - rewrite <- Hn in Hok. unfold hs_ok in Hok. cbn [forallb] in Hok.
    apply andb_true_iff in Hok. destruct Hok as [Ha Hb]. apply andb_true_iff in Hb. destruct Hb as [Hb _].
    apply Nat.ltb_lt in Ha, Hb.
    pose proof (handle_lt _ a _ Hh Ha) as La. pose proof (handle_lt _ b _ Hh Hb) as Lb.
    split; [|split]; cbn [rs_state rs_handles rs_stuck].
    + eexists. apply (R_equate P A (rs_state r) _ _ HR La Lb).
    + destruct (equate_fields (handle (rs_handles r) a) (handle (rs_handles r) b) (rs_state r)) as [_ [_ [_ [F4 _]]]].
      rewrite F4. exact Hh.
    + intros _. exact Hn.
  - apply do_close_RI; assumption.
  - apply do_close_RI; assumption.
Qed.

Lemma run_fold_RI fuel P : wf_rules (fp_rules P) -> forall calls n r,
  RI P n r -> calls_ok n calls = true -> exists m, RI P m (fold_left (step_call fuel P) calls r).
Proof.
  intros Hwf. induction calls as [|c calls IH]; intros n r HRI Hok; cbn [fold_left]; [exists n; exact HRI|].
  cbn [calls_ok] in Hok. apply andb_true_iff in Hok. destruct Hok as [Hc Hl].
  eapply IH; [|exact Hl]. apply step_call_RI; assumption.
Qed.

(* every state computed by run_state from a history with valid handles is reachable *)
Theorem run_reachable fuel P calls :
  wf_rules (fp_rules P) -> calls_ok 0 calls = true -> Reachable P (rs_state (run_state fuel P calls)).
Proof.
  intros Hwf Hok. unfold run_state.
  set (r0 := {| rs_state := init; rs_handles := []; rs_outs := []; rs_stuck := false |}).
  assert (H0 : RI P 0%nat r0).
  { split; [exists []; apply R_init|]. cbn [r0 rs_state rs_handles rs_stuck]. split; [constructor | reflexivity]. }
  destruct (run_fold_RI fuel P Hwf calls 0%nat r0 H0 Hok) as [m [HR _]]. exact HR.
Qed.
