(* Engine/FactsBasic.v -- reflection lemmas for the boolean tests of Model.v, rows, canonical forms,
   and correctness of the nested-loop matcher ([matches] enumerates exactly the aged matches). *)
From Coq Require Import List NArith Bool Lia.
From Engine Require Import Model.
Import ListNotations.
Local Open Scope N_scope.
Arguments N.add : simpl never.
Arguments N.sub : simpl never.
Arguments N.mul : simpl never.
Arguments N.eqb : simpl never.
Arguments N.ltb : simpl never.
Arguments N.leb : simpl never.

(* ---------- equality tests ---------- *)
Lemma frel_eqb_eq a b : frel_eqb a b = true <-> a = b.
Proof.
  destruct a as [x|x], b as [y|y]; cbn [frel_eqb]; try rewrite N.eqb_eq;
    split; intros H; try discriminate; try congruence.
Qed.

Lemma frel_eqb_refl a : frel_eqb a a = true.
Proof. apply frel_eqb_eq. reflexivity. Qed.

Lemma row_eqb_eq a b : row_eqb a b = true <-> a = b.
Proof.
  revert b. induction a as [|x a IH]; intros [|y b]; cbn [row_eqb]; try (split; intros H; congruence).
  rewrite andb_true_iff, N.eqb_eq, IH. split; [intros [H1 H2]; congruence | intros H; inversion H; auto].
Qed.

Lemma fact_eqb_eq a b : fact_eqb a b = true <-> a = b.
Proof.
  unfold fact_eqb. rewrite andb_true_iff, frel_eqb_eq, row_eqb_eq.
  destruct a, b; cbn [fst snd]. split; [intros [H1 H2]; congruence | intros H; inversion H; auto].
Qed.

Lemma mem_In x l : mem x l = true <-> In x l.
Proof.
  unfold mem. rewrite existsb_exists. split.
  - intros [y [Hy E]]. apply fact_eqb_eq in E. subst. exact Hy.
  - intros H. exists x. split; [exact H | apply fact_eqb_eq; reflexivity].
Qed.

Lemma mem_false x l : mem x l = false <-> ~ In x l.
Proof. rewrite <- mem_In. destruct (mem x l); split; intros H; congruence. Qed.

Lemma frel_eq_dec (a b : frel) : {a = b} + {a <> b}.
Proof. decide equality; apply N.eq_dec. Defined.
Lemma row_eq_dec (a b : row) : {a = b} + {a <> b}.
Proof. apply list_eq_dec. apply N.eq_dec. Defined.
Lemma fact_eq_dec (a b : fact) : {a = b} + {a <> b}.
Proof. decide equality; [apply row_eq_dec | apply frel_eq_dec]. Defined.

(* ---------- canonical forms ---------- *)
Definition canon (f : N -> N) (t : row) : row := map f t.
Definition is_canon (f : N -> N) (t : row) : Prop := map f t = t.

Lemma is_canon_b_spec f x : is_canon_b f x = true <-> is_canon f (snd x).
Proof. unfold is_canon_b, is_canon. apply row_eqb_eq. Qed.

Lemma is_canon_b_false f x : is_canon_b f x = false <-> ~ is_canon f (snd x).
Proof. rewrite <- is_canon_b_spec. destruct (is_canon_b f x); split; intros H; congruence. Qed.

Lemma is_canon_dec f t : {is_canon f t} + {~ is_canon f t}.
Proof. unfold is_canon. apply row_eq_dec. Defined.

Lemma canon_canon f t : (forall x, f (f x) = f x) -> canon f (canon f t) = canon f t.
Proof. intros H. unfold canon. rewrite map_map. apply map_ext. auto. Qed.

Lemma canon_coarse f g t : (forall x, g (f x) = g x) -> canon g (canon f t) = canon g t.
Proof. intros H. unfold canon. rewrite map_map. apply map_ext. auto. Qed.

Lemma canon_app f a b : canon f (a ++ b) = canon f a ++ canon f b.
Proof. apply map_app. Qed.

Lemma is_canon_Forall f t : is_canon f t <-> Forall (fun x => f x = x) t.
Proof.
  unfold is_canon. induction t as [|x t IH]; cbn [map].
  - split; auto.
  - split.
    + intros H. inversion H as [[H1 H2]]. constructor; [congruence|]. rewrite H2. apply IH. exact H2.
    + intros H. inversion H as [|? ? H1 H2]; subst. rewrite H1. f_equal. apply IH. exact H2.
Qed.

Lemma is_canon_mono f g t : (forall x, g x = x -> f x = x) -> is_canon g t -> is_canon f t.
Proof.
  intros H. rewrite !is_canon_Forall. apply Forall_impl. exact H.
Qed.

Lemma canon_fact_fst f x : fst (canon_fact f x) = fst x.
Proof. reflexivity. Qed.

(* ---------- split_last / lookup_fun ---------- *)
Lemma split_last_spec a t v : split_last a t = Some v <-> t = a ++ [v].
Proof.
  revert t. induction a as [|x a IH]; intros t; cbn [split_last app].
  - destruct t as [|y [|z t]]; split; intros H; try discriminate; try congruence.
  - destruct t as [|y t]; [split; intros H; discriminate|].
    destruct (N.eqb x y) eqn:E.
    + apply N.eqb_eq in E. subst y. rewrite IH. split; intros H; [congruence | inversion H; auto].
    + apply N.eqb_neq in E. split; intros H; [discriminate | inversion H; congruence].
Qed.

Lemma lookup_fun_Some f a l v :
  lookup_fun f a l = Some v -> In (FRel f, a ++ [v]) l.
Proof.
  induction l as [|[r t] l IH]; cbn [lookup_fun]; intros H; [discriminate|].
  destruct (frel_eqb r (FRel f)) eqn:E.
  - apply frel_eqb_eq in E. subst r.
    destruct (split_last a t) as [w|] eqn:S.
    + inversion H; subst w. apply split_last_spec in S. subst t. left. reflexivity.
    + right. auto.
  - right. auto.
Qed.

Lemma lookup_fun_None f a l :
  lookup_fun f a l = None -> forall v, ~ In (FRel f, a ++ [v]) l.
Proof.
  induction l as [|[r t] l IH]; cbn [lookup_fun]; intros H v Hin; [exact Hin|].
  destruct Hin as [E|Hin].
  - inversion E; subst r t. rewrite frel_eqb_refl in H.
    destruct (split_last a (a ++ [v])) eqn:S; [discriminate|].
    assert (S' : split_last a (a ++ [v]) = Some v) by (apply split_last_spec; reflexivity).
    congruence.
  - destruct (frel_eqb r (FRel f)); [destruct (split_last a t); [discriminate|]|]; eapply IH; eauto.
Qed.

(* ---------- assignments and the matcher ---------- *)
Definition asg := N -> N.

Definition atom_in (sg : asg) (F : list fact) (a : fatom) : Prop :=
  In (fa_rel a, map sg (fa_args a)) F.
(* match ignoring ages, against a set of facts *)
Definition is_match (sg : asg) (prem : list fatom) (F : list fact) : Prop :=
  Forall (atom_in sg F) prem.
(* match respecting ages *)
Definition aged_match (sg : asg) (prem : list fatom) (s : state) : Prop :=
  Forall (fun a => atom_in sg (tbl s (fa_age a)) a) prem.

Definition agrees (sg : asg) (e : env) : Prop := forall x v, assoc e x = Some v -> sg x = v.
Definition bound (e : env) (x : N) : Prop := assoc e x <> None.

Lemma assoc_cons_eq e x v : assoc ((x, v) :: e) x = Some v.
Proof. cbn [assoc]. rewrite N.eqb_refl. reflexivity. Qed.
Lemma assoc_cons_neq e x y v : y <> x -> assoc ((x, v) :: e) y = assoc e y.
Proof. intros H. cbn [assoc]. apply N.eqb_neq in H. rewrite H. reflexivity. Qed.

(* bind e args t = Some e' : e' extends e, binds all of args, and every agreeing assignment maps args to t *)
Lemma bind_sound e args t e' :
  bind e args t = Some e' ->
  (forall x v, assoc e x = Some v -> assoc e' x = Some v) /\
  (forall x, In x args -> bound e' x) /\
  (forall sg, agrees sg e' -> map sg args = t).
Proof.
  revert e t e'. induction args as [|x args IH]; intros e t e' H; cbn [bind] in H.
  - destruct t; [|discriminate]. inversion H; subst e'. repeat split; auto. intros y [].
  - destruct t as [|v t]; [discriminate|].
    destruct (assoc e x) as [v'|] eqn:A.
    + destruct (N.eqb v v') eqn:E; [|discriminate]. apply N.eqb_eq in E. subst v'.
      destruct (IH _ _ _ H) as [Hext [Hb Hm]]. split; [exact Hext|]. split.
      * intros y [Hy|Hy]; [subst y; unfold bound; rewrite (Hext _ _ A); discriminate | auto].
      * intros sg Hag. cbn [map]. rewrite (Hm sg Hag). f_equal. apply Hag. apply Hext. exact A.
    + destruct (IH _ _ _ H) as [Hext [Hb Hm]]. split; [|split].
      * intros y w Hy. apply Hext. destruct (N.eq_dec y x) as [->|Hne]; [congruence|].
        rewrite assoc_cons_neq; auto.
      * intros y [Hy|Hy]; [subst y; unfold bound; rewrite (Hext x v (assoc_cons_eq e x v)); discriminate
                          | auto].
      * intros sg Hag. cbn [map]. rewrite (Hm sg Hag). f_equal. apply Hag. apply Hext.
        apply assoc_cons_eq.
Qed.

Lemma bind_complete sg e args :
  agrees sg e -> exists e', bind e args (map sg args) = Some e' /\ agrees sg e'.
Proof.
  revert e. induction args as [|x args IH]; intros e Hag; cbn [bind map].
  - exists e. auto.
  - destruct (assoc e x) as [v'|] eqn:A.
    + rewrite (Hag _ _ A), N.eqb_refl. apply IH. exact Hag.
    + apply IH. intros y w Hy. destruct (N.eq_dec y x) as [->|Hne].
      * rewrite assoc_cons_eq in Hy. congruence.
      * rewrite assoc_cons_neq in Hy; auto.
Qed.

Lemma matches_sound s prem : forall e e', In e' (matches s prem e) ->
  (forall x v, assoc e x = Some v -> assoc e' x = Some v) /\
  (forall a x, In a prem -> In x (fa_args a) -> bound e' x) /\
  (forall sg, agrees sg e' -> aged_match sg prem s).
Proof.
  induction prem as [|a prem IH]; intros e e' H; cbn [matches] in H.
  - destruct H as [H|[]]. subst e'. repeat split; auto.
    + intros a x [].
    + intros sg _. constructor.
  - apply in_flat_map in H. destruct H as [[r t] [Hx H]]. cbn [fst snd] in H.
    destruct (frel_eqb r (fa_rel a)) eqn:E; [|destruct H]. apply frel_eqb_eq in E. subst r.
    destruct (bind e (fa_args a) t) as [e1|] eqn:B; [|destruct H].
    destruct (bind_sound _ _ _ _ B) as [Hext1 [Hb1 Hm1]].
    destruct (IH _ _ H) as [Hext [Hb Hm]]. split; [|split].
    + intros x v Hx'. auto.
    + intros a' x [Ha|Ha] Hx'.
      * subst a'. specialize (Hb1 x Hx'). unfold bound in *.
        destruct (assoc e1 x) as [w|] eqn:A; [|congruence]. rewrite (Hext _ _ A). discriminate.
      * eapply Hb; eauto.
    + intros sg Hag. constructor; [|apply Hm; exact Hag].
      unfold atom_in. rewrite (Hm1 sg); [exact Hx|].
      intros x v Hx'. apply Hag. apply Hext. exact Hx'.
Qed.

Lemma matches_complete s sg prem : forall e, agrees sg e -> aged_match sg prem s ->
  exists e', In e' (matches s prem e) /\ agrees sg e'.
Proof.
  induction prem as [|a prem IH]; intros e Hag Hm; cbn [matches].
  - exists e. split; [left; reflexivity | exact Hag].
  - inversion Hm as [|? ? Ha Hp]; subst.
    destruct (bind_complete sg e (fa_args a) Hag) as [e1 [B Hag1]].
    destruct (IH e1 Hag1 Hp) as [e' [Hin Hag']].
    exists e'. split; [|exact Hag'].
    apply in_flat_map. exists (fa_rel a, map sg (fa_args a)). split; [exact Ha|].
    cbn [fst snd]. rewrite frel_eqb_refl, B. exact Hin.
Qed.

(* variables of conclusions *)
Definition conc_vars (c : fconc) : list N :=
  match c with CRel _ args => args | CEq x y => [x; y] | CDef _ args => args end.
Definition prem_vars (prem : list fatom) : list N := flat_map fa_args prem.

(* every conclusion variable occurs in the premise *)
Definition wf_rule (ru : frule) : Prop :=
  forall c x, In c (fr_conc ru) -> In x (conc_vars c) -> In x (prem_vars (fr_prem ru)).
Definition wf_rules (rules : list frule) : Prop := Forall wf_rule rules.

Definition wf_rule_b (ru : frule) : bool :=
  forallb (fun c => forallb (fun x => existsb (N.eqb x) (prem_vars (fr_prem ru))) (conc_vars c))
          (fr_conc ru).
Lemma wf_rule_b_sound ru : wf_rule_b ru = true -> wf_rule ru.
Proof.
  unfold wf_rule_b, wf_rule. rewrite forallb_forall. intros H c x Hc Hx.
  specialize (H c Hc). rewrite forallb_forall in H. specialize (H x Hx).
  apply existsb_exists in H. destruct H as [y [Hy E]]. apply N.eqb_eq in E. subst. exact Hy.
Qed.
Lemma wf_rules_b_sound rules : forallb wf_rule_b rules = true -> wf_rules rules.
Proof.
  unfold wf_rules. rewrite forallb_forall, Forall_forall. intros H ru Hru.
  apply wf_rule_b_sound. auto.
Qed.

Lemma ground_ext sg sg' c : (forall x, In x (conc_vars c) -> sg x = sg' x) -> ground sg c = ground sg' c.
Proof.
  destruct c as [r args|x y|f args]; cbn [ground conc_vars]; intros H.
  - f_equal. apply map_ext_in. exact H.
  - rewrite (H x), (H y); cbn [In]; auto.
  - f_equal. apply map_ext_in. exact H.
Qed.

(* [collect] = exactly the ground conclusions of aged matches *)
Lemma collect_sound rules s g : In g (collect rules s) ->
  exists ru sg c, In ru rules /\ aged_match sg (fr_prem ru) s /\ In c (fr_conc ru) /\ g = ground sg c.
Proof.
  unfold collect, fire. intros H. apply in_flat_map in H. destruct H as [ru [Hru H]].
  apply in_flat_map in H. destruct H as [e [He H]]. apply in_map_iff in H. destruct H as [c [Hg Hc]].
  destruct (matches_sound _ _ _ _ He) as [_ [_ Hm]].
  exists ru, (val e), c. repeat split; auto.
  apply Hm. intros x v Hx. unfold val. rewrite Hx. reflexivity.
Qed.

Lemma collect_complete rules s ru sg c : wf_rules rules ->
  In ru rules -> aged_match sg (fr_prem ru) s -> In c (fr_conc ru) ->
  In (ground sg c) (collect rules s).
Proof.
  intros Hwf Hru Hm Hc. unfold collect, fire. apply in_flat_map. exists ru. split; [exact Hru|].
  destruct (matches_complete s sg (fr_prem ru) [] ) as [e [He Hag]]; [intros x v H; discriminate|exact Hm|].
  apply in_flat_map. exists e. split; [exact He|]. apply in_map_iff. exists c. split; [|exact Hc].
  apply ground_ext. intros x Hx.
  unfold wf_rules in Hwf. rewrite Forall_forall in Hwf. specialize (Hwf ru Hru c x Hc Hx).
  unfold prem_vars in Hwf. apply in_flat_map in Hwf. destruct Hwf as [a [Ha Hxa]].
  destruct (matches_sound _ _ _ _ He) as [_ [Hb _]]. specialize (Hb a x Ha Hxa).
  unfold bound in Hb. unfold val. destruct (assoc e x) as [v|] eqn:A; [|congruence].
  symmetry. apply Hag. exact A.
Qed.

(* projections of D *)
Lemma in_grels D r t : In (FRel r, t) (grels D) <-> In (GRel r t) D.
Proof.
  induction D as [|g D IH]; cbn [grels]; [tauto|].
  destruct g; cbn [In]; rewrite ?IH; try (split; [intros H; right; exact H | intros [H|H]; [discriminate | exact H]]).
  split; (intros [H|H]; [left; inversion H; reflexivity | right; exact H]).
Qed.
Lemma in_grels_inv D x : In x (grels D) -> exists r t, x = (FRel r, t) /\ In (GRel r t) D.
Proof.
  induction D as [|g D IH]; cbn [grels]; [intros []|].
  destruct g; cbn [In]; intros H.
  - destruct H as [H|H]; [subst; eauto | destruct (IH H) as [r' [t' [E H']]]; eauto].
  - destruct (IH H) as [r' [t' [E H']]]; eauto.
  - destruct (IH H) as [r' [t' [E H']]]; eauto.
Qed.
Lemma in_geqs D a b : In (a, b) (geqs D) <-> In (GEq a b) D.
Proof.
  induction D as [|g D IH]; cbn [geqs]; [tauto|].
  destruct g; cbn [In]; rewrite ?IH; try (split; [intros H; right; exact H | intros [H|H]; [discriminate | exact H]]).
  split; (intros [H|H]; [left; inversion H; reflexivity | right; exact H]).
Qed.
Lemma in_gdefs D f t : In (f, t) (gdefs D) <-> In (GDef f t) D.
Proof.
  induction D as [|g D IH]; cbn [gdefs]; [tauto|].
  destruct g; cbn [In]; rewrite ?IH; try (split; [intros H; right; exact H | intros [H|H]; [discriminate | exact H]]).
  split; (intros [H|H]; [left; inversion H; reflexivity | right; exact H]).
Qed.
