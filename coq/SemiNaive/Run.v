(* Entry points for generated cases (property C16).

   A family is written as a Gallina list of sub-rules; a sub-rule is a list of pairs
   (atom id, age code) in the order in which the emitted rule function binds its premise
   positions.  Atom ids are 0 .. n-1 where n is the number of atoms of the premise (distinct
   premise atoms get distinct ids; the translator assigns them from the flat-rule comment of
   sub-rule 0).  Age codes: 0 = [new], 1 = [old], 2 = [all]; any other code makes the check fail.

     check_family      fam   = true  iff every sub-rule mentions each atom id 0..n-1 exactly once
                                      (n = length of the first sub-rule, n >= 1) and for every one
                                      of the 2^n labellings exactly one sub-rule accepts if some
                                      label is new and none if all are old
                                      (Props_C16.C16_family_ok_sound / _complete).
     check_family_sym  fam   = true  iff every sub-rule mentions atom ids 0 and 1 exactly once and
                                      for each of the 4 labellings: some new  -> the match or its
                                      mirror image is accepted (and the match at most once),
                                      all old -> neither (C16_family_ok_sym_sound).
     check_family_enum fam   =       the 2^n enumeration, equal to check_family by
                                      C16_family_ok_enum_iff; only for cross-checking, n <= 12.

   Example:  Eval vm_compute in (check_family [[(0,0);(1,1)];[(1,0);(0,2)]]%N).   (* true *)  *)

From Coq Require Import List NArith Bool.
From SemiNaive Require Import Model.
Import ListNotations.

Definition decode_age (c : N) : option age :=
  match c with
  | 0%N => Some New
  | 1%N => Some Old
  | 2%N => Some All
  | _ => None
  end.

Fixpoint decode_rule (r : list (N * N)) : option irule :=
  match r with
  | [] => Some []
  | (k, c) :: r' =>
      match decode_age c, decode_rule r' with
      | Some a, Some q => Some ((k, a) :: q)
      | _, _ => None
      end
  end.

Fixpoint decode_family (fam : list (list (N * N))) : option (list irule) :=
  match fam with
  | [] => Some []
  | r :: fam' =>
      match decode_rule r, decode_family fam' with
      | Some q, Some qs => Some (q :: qs)
      | _, _ => None
      end
  end.

Definition check_family (fam : list (list (N * N))) : bool :=
  match decode_family fam with Some f => family_ok f | None => false end.

Definition check_family_sym (fam : list (list (N * N))) : bool :=
  match decode_family fam with Some f => family_ok_sym f | None => false end.

Definition check_family_enum (fam : list (list (N * N))) : bool :=
  match decode_family fam with Some f => family_ok_enum f | None => false end.

(* the family to_semi_naive prints for n atoms, in the encoding above *)
Definition encode_age (a : age) : N := match a with New => 0 | Old => 1 | All => 2 end%N.
Definition semi_naive_family (n : N) : list (list (N * N)) :=
  map (map (fun p : N * age => (fst p, encode_age (snd p)))) (tagged_semi_naive (N.to_nat n)).
