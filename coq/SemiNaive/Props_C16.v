(* Property C16: semi-naive plans enumerate exactly the matches containing a new tuple, once.
   Statements only; proofs are in Facts.v. *)

From Coq Require Import List NArith Bool Permutation.
From SemiNaive Require Import Model Facts.
Import ListNotations.

(* The family printed by to_semi_naive: for every labelling of the n >= 1 matched tuples,
   exactly one sub-rule accepts if some tuple is new, none if all are old. *)
Theorem C16_semi_naive_exact : forall n lab,
  length lab = n -> n >= 1 ->
  count (to_semi_naive n) lab = if existsb id lab then 1 else 0.
Proof. exact semi_naive_exact. Qed.
Print Assumptions C16_semi_naive_exact.

Example C16_semi_naive_exact_nonvacuous :
  length [false; true; false] = 3 /\ 3 >= 1 /\ count (to_semi_naive 3) [false; true; false] = 1.
Proof. repeat split; auto. Qed.

(* n = 0: the premise is returned unchanged; its single atom-less sub-rule runs in every iteration
   (semi_naive.rs:92 TODO).  Stated, not claimed as a violation. *)
Theorem C16_semi_naive_empty : to_semi_naive 0 = [ [] ] /\ count (to_semi_naive 0) [] = 1.
Proof. exact semi_naive_empty. Qed.
Print Assumptions C16_semi_naive_empty.

(* Stability under sort_premise: atoms carry identifiers, each sub-rule is permuted on its own,
   acceptance looks the label up by atom id. *)
Theorem C16_semi_naive_exact_perm : forall n lab fam,
  length lab = n -> n >= 1 ->
  Forall2 (@Permutation (N * age)) (tagged_semi_naive n) fam ->
  icount fam lab = if existsb id lab then 1 else 0.
Proof. exact semi_naive_exact_perm. Qed.
Print Assumptions C16_semi_naive_exact_perm.

Example C16_semi_naive_exact_perm_nonvacuous :
  Forall2 (@Permutation (N * age)) (tagged_semi_naive 2)
          [ [ (1, Old); (0, New) ]; [ (0, All); (1, New) ] ]%N.
Proof. repeat constructor. Qed.

(* The checker: sound ... *)
Theorem C16_family_ok_sound : forall fam,
  family_ok fam = true ->
  let n := fam_arity fam in
  n >= 1 /\ Forall (wf_irule n) fam /\
  forall lab, length lab = n -> icount fam lab = if existsb id lab then 1 else 0.
Proof. exact family_ok_sound. Qed.
Print Assumptions C16_family_ok_sound.

(* ... and complete: it rejects only families that violate the statement. *)
Theorem C16_family_ok_complete : forall fam,
  let n := fam_arity fam in
  n >= 1 -> Forall (wf_irule n) fam ->
  (forall lab, length lab = n -> icount fam lab = if existsb id lab then 1 else 0) ->
  family_ok fam = true.
Proof. exact family_ok_complete. Qed.
Print Assumptions C16_family_ok_complete.

Example C16_family_ok_complete_nonvacuous :
  (* an exact family that is not of to_semi_naive's shape: split on atom 1 first *)
  family_ok [ [ (1, New); (0, All) ]; [ (0, New); (1, Old) ] ]%N = true /\
  icount [ [ (1, New); (0, All) ]; [ (0, New); (1, Old) ] ]%N [true; true] = 1.
Proof. vm_compute. split; reflexivity. Qed.

(* The criterion decides the same thing as enumerating all 2^n labellings. *)
Theorem C16_family_ok_enum_iff : forall fam, family_ok_enum fam = family_ok fam.
Proof. exact family_ok_enum_iff. Qed.
Print Assumptions C16_family_ok_enum_iff.

(* Whatever permutation sort_premise applies, the family printed by to_semi_naive passes. *)
Theorem C16_sorted_semi_naive_ok : forall n fam,
  n >= 1 -> Forall2 (@Permutation (N * age)) (tagged_semi_naive n) fam -> family_ok fam = true.
Proof. exact sorted_semi_naive_ok. Qed.
Print Assumptions C16_sorted_semi_naive_ok.

(* The functionality rule: one sub-rule, two interchangeable atoms. *)
Theorem C16_family_ok_sym_sound : forall fam,
  family_ok_sym fam = true ->
  Forall (wf_irule 2) fam /\
  forall lab, length lab = 2 ->
    (existsb id lab = true ->
       icount fam lab + icount fam (swap lab) >= 1 /\ icount fam lab <= 1) /\
    (existsb id lab = false ->
       icount fam lab + icount fam (swap lab) = 0).
Proof. exact family_ok_sym_sound. Qed.
Print Assumptions C16_family_ok_sym_sound.

(* ---- non-vacuity ---- *)

(* the n = 3 family printed by to_semi_naive *)
Example C16_family3 :
  to_semi_naive 3 = [ [New; Old; Old]; [All; New; Old]; [All; All; New] ].
Proof. reflexivity. Qed.

Example C16_family3_ok : family_ok (tagged_semi_naive 3) = true.
Proof. vm_compute. reflexivity. Qed.

(* the same family after a premise reordering *)
Example C16_family3_sorted_ok :
  family_ok [ [ (1, Old); (0, New); (2, Old) ];
              [ (1, New); (2, Old); (0, All) ];
              [ (2, New); (0, All); (1, All) ] ]%N = true.
Proof. vm_compute. reflexivity. Qed.

(* Exchanging Old and All in EVERY sub-rule (`Less => All, Greater => Old`) gives the mirror-image
   family "the first new atom is atom i"; it is just as exact, and the checker, being complete,
   accepts it. *)
Example C16_mirror_family_ok :
  family_ok (map tag [ [New; All; All]; [Old; New; All]; [Old; Old; New] ]) = true.
Proof. vm_compute. reflexivity. Qed.

(* Broken families are rejected:
   1. `Ordering::Less => All` alone (no Old at all): a match with two new tuples is enumerated twice;
   2. Old and All exchanged in one sub-rule only;
   3. an Old where an All belongs: (new, new, old) is never enumerated;
   4. a sub-rule missing. *)
Example C16_broken_rejected :
  family_ok (map tag [ [New; All; All]; [All; New; All]; [All; All; New] ]) = false /\
  family_ok (map tag [ [New; Old; Old]; [Old; New; All]; [All; All; New] ]) = false /\
  family_ok (map tag [ [New; Old; Old]; [Old; New; Old]; [All; All; New] ]) = false /\
  family_ok (map tag [ [New; Old; Old]; [All; New; Old] ]) = false.
Proof. vm_compute. repeat split; reflexivity. Qed.

(* an atom bound twice / an atom missing *)
Example C16_bad_ids_rejected :
  family_ok [ [ (0, New); (0, Old) ]; [ (0, All); (1, New) ] ]%N = false /\
  family_ok [ [ (0, New); (2, Old) ]; [ (0, All); (1, New) ] ]%N = false /\
  family_ok [ [ ] ] = false /\ family_ok [ ] = false.
Proof. vm_compute. repeat split; reflexivity. Qed.

(* 40 atoms: 2^40 labellings, decided by the criterion *)
Example C16_family40_ok : family_ok (tagged_semi_naive 40) = true.
Proof. vm_compute. reflexivity. Qed.

Example C16_functionality_ok :
  family_ok_sym functionality_family = true /\
  family_ok_sym [ [ (1, All); (0, New) ] ]%N = true /\
  family_ok functionality_family = false.           (* not exact without the symmetry *)
Proof. vm_compute. repeat split; reflexivity. Qed.

Example C16_functionality_broken_rejected :
  family_ok_sym [ [ (0, New); (1, Old) ] ]%N = false /\      (* misses new x new *)
  family_ok_sym [ [ (0, All); (1, All) ] ]%N = false /\      (* enumerates old x old *)
  family_ok_sym [ [ (0, New); (1, All) ]; [ (0, New); (1, All) ] ]%N = false.  (* twice *)
Proof. vm_compute. repeat split; reflexivity. Qed.
