(* Lemmas and proofs about the semi-naive sub-rule families (property C16). *)

From Coq Require Import List NArith Bool Lia Arith Permutation.
From SemiNaive Require Import Model.
Import ListNotations.

Arguments N.add : simpl never.
Arguments N.sub : simpl never.
Arguments N.mul : simpl never.
Arguments N.eqb : simpl never.
Arguments N.ltb : simpl never.
Arguments N.leb : simpl never.
Arguments N.pow : simpl never.

(* ------------------------------------------------------------------------------------------ *)
(* 1. the family printed by to_semi_naive is exact                                             *)
(* ------------------------------------------------------------------------------------------ *)

Definition fam' (n : nat) : list (list age) := map (subrule n) (seq 0 n).

Lemma map_age0 : forall m k, map (fun x : nat => age_of 0 (S x)) (seq k m) = repeat Old m.
Proof.
  induction m as [|m IHm]; intros k; cbn [seq map repeat]; [reflexivity|].
  f_equal. apply IHm.
Qed.

Lemma subrule_0' : forall n, subrule (S n) 0 = New :: repeat Old n.
Proof.
  intros n. unfold subrule. cbn [seq map]. f_equal.
  rewrite <- seq_shift, map_map. apply map_age0.
Qed.

Lemma subrule_S : forall n i, subrule (S n) (S i) = All :: subrule n i.
Proof.
  intros n i. unfold subrule. cbn [seq map]. f_equal.
  rewrite <- seq_shift, map_map. reflexivity.
Qed.

Lemma fam'_S : forall n, fam' (S n) = (New :: repeat Old n) :: map (cons All) (fam' n).
Proof.
  intros n. unfold fam'. cbn [seq map]. rewrite subrule_0'. f_equal.
  rewrite <- seq_shift, !map_map. apply map_ext. intros i. apply subrule_S.
Qed.

Lemma count_cons : forall r fam lab,
  count (r :: fam) lab = (if subrule_accepts r lab then 1 else 0) + count fam lab.
Proof.
  intros r fam lab. unfold count. cbn [filter].
  destruct (subrule_accepts r lab); reflexivity.
Qed.

Lemma count_cons_All : forall fam b lab, count (map (cons All) fam) (b :: lab) = count fam lab.
Proof.
  induction fam as [|r fam IH]; intros b lab; [reflexivity|].
  cbn [map]. rewrite !count_cons, IH. reflexivity.
Qed.

Lemma accepts_repeat_Old : forall lab,
  subrule_accepts (repeat Old (length lab)) lab = negb (existsb (@id bool) lab).
Proof.
  induction lab as [|b lab IH]; [reflexivity|].
  cbn [length repeat existsb]. unfold subrule_accepts in *. cbn [forallb2 accepts].
  rewrite IH. unfold id at 2. destruct b; reflexivity.
Qed.

Lemma fam'_exact : forall lab, count (fam' (length lab)) lab = expected lab.
Proof.
  induction lab as [|b lab IH]; [reflexivity|].
  cbn [length]. rewrite fam'_S, count_cons, count_cons_All, IH.
  unfold subrule_accepts. cbn [forallb2 accepts].
  fold (subrule_accepts (repeat Old (length lab)) lab). rewrite accepts_repeat_Old.
  unfold expected, id. cbn [existsb].
  destruct b; destruct (existsb (fun x : bool => x) lab); reflexivity.
Qed.

Lemma semi_naive_exact : forall n lab,
  length lab = n -> n >= 1 ->
  count (to_semi_naive n) lab = if existsb (@id bool) lab then 1 else 0.
Proof.
  intros n lab Hlen Hn. subst n.
  destruct lab as [|b lab]; [cbn [length] in Hn; lia|].
  exact (fam'_exact (b :: lab)).
Qed.

(* the empty premise: one sub-rule without atoms, which accepts the only (all-old) labelling *)
Lemma semi_naive_empty : to_semi_naive 0 = [ [] ] /\ count (to_semi_naive 0) [] = 1.
Proof. split; reflexivity. Qed.

(* ------------------------------------------------------------------------------------------ *)
(* 2. identifiers, and stability under a permutation of the atoms of each sub-rule             *)
(* ------------------------------------------------------------------------------------------ *)

Lemma forallb_perm : forall (A : Type) (f : A -> bool) (l l' : list A),
  Permutation l l' -> forallb f l = forallb f l'.
Proof.
  intros A f l l' HP. induction HP as [|x l l' HP IH|x y l|l l' l'' HP1 IH1 HP2 IH2];
    cbn [forallb].
  - reflexivity.
  - rewrite IH. reflexivity.
  - destruct (f x), (f y); reflexivity.
  - rewrite IH1. exact IH2.
Qed.

Lemma iaccepts_perm : forall r r' lab, Permutation r r' -> iaccepts r lab = iaccepts r' lab.
Proof. intros r r' lab HP. unfold iaccepts. apply forallb_perm. exact HP. Qed.

Lemma icount_cons : forall r fam lab,
  icount (r :: fam) lab = (if iaccepts r lab then 1 else 0) + icount fam lab.
Proof.
  intros r fam lab. unfold icount. cbn [filter].
  destruct (iaccepts r lab); reflexivity.
Qed.

Lemma icount_perm : forall fam fam' lab,
  Forall2 (@Permutation (N * age)) fam fam' -> icount fam lab = icount fam' lab.
Proof.
  intros fam fam2 lab HF. induction HF as [|r r' fam fam2 HP HF IH]; [reflexivity|].
  rewrite !icount_cons, IH, (iaccepts_perm r r' lab HP). reflexivity.
Qed.

Lemma lookup_app : forall pre b lab, lookup (pre ++ b :: lab) (N.of_nat (length pre)) = b.
Proof.
  intros pre b lab. unfold lookup. rewrite Nat2N.id, app_nth2 by lia.
  rewrite Nat.sub_diag. reflexivity.
Qed.

Lemma iaccepts_tag_from : forall r pre lab,
  length r = length lab ->
  iaccepts (tag_from (N.of_nat (length pre)) r) (pre ++ lab) = subrule_accepts r lab.
Proof.
  induction r as [|a r IH]; intros pre lab Hlen.
  - destruct lab; [reflexivity|discriminate].
  - destruct lab as [|b lab]; [discriminate|].
    cbn [length] in Hlen. injection Hlen as Hlen.
    cbn [tag_from]. unfold iaccepts, subrule_accepts. cbn [forallb forallb2 fst snd].
    rewrite lookup_app. f_equal.
    specialize (IH (pre ++ [b]) lab Hlen).
    rewrite app_length in IH. cbn [length] in IH.
    replace (N.of_nat (length pre + 1)) with (N.succ (N.of_nat (length pre))) in IH by lia.
    rewrite <- app_assoc in IH. exact IH.
Qed.

Lemma iaccepts_tag : forall r lab,
  length r = length lab -> iaccepts (tag r) lab = subrule_accepts r lab.
Proof. intros r lab Hlen. exact (iaccepts_tag_from r [] lab Hlen). Qed.

Lemma icount_tag : forall fam lab,
  Forall (fun r => length r = length lab) fam -> icount (map tag fam) lab = count fam lab.
Proof.
  intros fam lab HF. induction HF as [|r fam Hr HF IH]; [reflexivity|].
  cbn [map]. rewrite icount_cons, count_cons, IH, (iaccepts_tag r lab Hr). reflexivity.
Qed.

Lemma subrule_length : forall n i, length (subrule n i) = n.
Proof. intros n i. unfold subrule. rewrite map_length, seq_length. reflexivity. Qed.

Lemma to_semi_naive_lengths : forall n, Forall (fun r => length r = n) (to_semi_naive n).
Proof.
  intros n. apply Forall_forall. intros r Hin. destruct n as [|n].
  - cbn in Hin. destruct Hin as [Hr|[]]. subst r. reflexivity.
  - unfold to_semi_naive in Hin. apply in_map_iff in Hin. destruct Hin as [i [Hi _]].
    subst r. apply subrule_length.
Qed.

Lemma tagged_exact : forall n lab,
  length lab = n -> n >= 1 -> icount (tagged_semi_naive n) lab = expected lab.
Proof.
  intros n lab Hlen Hn. unfold tagged_semi_naive. rewrite icount_tag.
  - exact (semi_naive_exact n lab Hlen Hn).
  - rewrite Hlen. apply to_semi_naive_lengths.
Qed.

(* sort_premise: every sub-rule is permuted on its own *)
Lemma semi_naive_exact_perm : forall n lab fam,
  length lab = n -> n >= 1 ->
  Forall2 (@Permutation (N * age)) (tagged_semi_naive n) fam ->
  icount fam lab = if existsb (@id bool) lab then 1 else 0.
Proof.
  intros n lab fam Hlen Hn HF.
  rewrite <- (icount_perm _ _ lab HF). exact (tagged_exact n lab Hlen Hn).
Qed.

(* ------------------------------------------------------------------------------------------ *)
(* 3. sums over all labellings                                                                 *)
(* ------------------------------------------------------------------------------------------ *)

Open Scope N_scope.

Definition b2n (b : bool) : N := if b then 1 else 0.

Lemma sumN_app : forall l m, sumN (l ++ m) = sumN l + sumN m.
Proof.
  unfold sumN. induction l as [|x l IH]; intros m; cbn [app fold_right].
  - lia.
  - rewrite IH. lia.
Qed.

Lemma sumN_cons : forall x l, sumN (x :: l) = x + sumN l.
Proof. reflexivity. Qed.

Lemma sumN_map_add : forall (A : Type) (f g : A -> N) (l : list A),
  sumN (map (fun x => f x + g x) l) = sumN (map f l) + sumN (map g l).
Proof.
  intros A f g l. induction l as [|x l IH]; cbn [map]; rewrite ?sumN_cons.
  - reflexivity.
  - rewrite IH. lia.
Qed.

Lemma sumN_map_zero : forall (A : Type) (l : list A), sumN (map (fun _ => 0) l) = 0.
Proof.
  intros A l. induction l as [|x l IH]; cbn [map]; rewrite ?sumN_cons; [reflexivity|].
  rewrite IH. reflexivity.
Qed.

Lemma sumN_map_double : forall (A : Type) (f : A -> N) (l : list A),
  sumN (map f l) + sumN (map f l) = 2 * sumN (map f l).
Proof. intros A f l. lia. Qed.

Lemma sum_swap : forall (A B : Type) (f : A -> B -> N) (la : list A) (lb : list B),
  sumN (map (fun b => sumN (map (fun a => f a b) la)) lb)
  = sumN (map (fun a => sumN (map (fun b => f a b) lb)) la).
Proof.
  intros A B f la lb. induction la as [|a la IH]; cbn [map].
  - cbn [sumN fold_right]. apply sumN_map_zero.
  - rewrite sumN_cons, <- IH, <- sumN_map_add. reflexivity.
Qed.

Lemma count_sum : forall fam lab,
  N.of_nat (count fam lab) = sumN (map (fun r => b2n (subrule_accepts r lab)) fam).
Proof.
  intros fam lab. induction fam as [|r fam IH]; [reflexivity|].
  cbn [map]. rewrite sumN_cons, <- IH, count_cons.
  destruct (subrule_accepts r lab); unfold b2n; lia.
Qed.

Lemma pow2_nonzero : forall k, 2 ^ k <> 0.
Proof. intros k. apply N.pow_nonzero. discriminate. Qed.

Lemma volume_cons : forall a r,
  volume (a :: r) = if is_all a then 2 * volume r else volume r.
Proof.
  intros a r. unfold volume. cbn [filter]. destruct (is_all a); [|reflexivity].
  cbn [length]. rewrite Nat2N.inj_succ, N.pow_succ_r'. reflexivity.
Qed.

Lemma accepts_sum : forall r n,
  length r = n ->
  sumN (map (fun lab => b2n (subrule_accepts r lab)) (labs n)) = volume r.
Proof.
  induction r as [|a r IH]; intros n Hlen.
  - subst n. reflexivity.
  - destruct n as [|n]; [discriminate|]. cbn [length] in Hlen. injection Hlen as Hlen.
    specialize (IH n Hlen).
    cbn [labs]. rewrite map_app, sumN_app, !map_map, volume_cons.
    unfold subrule_accepts in *. cbn [forallb2].
    destruct a; cbn [accepts negb is_all andb].
    + (* New *) unfold b2n at 1. rewrite sumN_map_zero, IH. lia.
    + (* Old *) unfold b2n at 2. rewrite sumN_map_zero, IH. lia.
    + (* All *) rewrite IH. lia.
Qed.

Lemma ones_sum : forall n, sumN (map (fun _ => 1) (labs n)) = 2 ^ N.of_nat n.
Proof.
  induction n as [|n IH]; [reflexivity|].
  cbn [labs]. rewrite map_app, sumN_app, !map_map, IH, Nat2N.inj_succ, N.pow_succ_r'. lia.
Qed.

Lemma labs_split : forall n,
  exists T, labs n = repeat false n :: T /\ forall lab, In lab T -> existsb (@id bool) lab = true.
Proof.
  induction n as [|n [T [HT Htrue]]].
  - exists []. split; [reflexivity|]. intros lab [].
  - exists (map (cons false) T ++ map (cons true) (labs n)). split.
    + cbn [labs]. rewrite HT. reflexivity.
    + intros lab Hin. apply in_app_or in Hin. destruct Hin as [Hin|Hin];
        apply in_map_iff in Hin; destruct Hin as [l [Hl Hin]]; subst lab; cbn [existsb].
      * rewrite (Htrue l Hin). apply orb_true_r.
      * reflexivity.
Qed.

Lemma labs_complete : forall lab, In lab (labs (length lab)).
Proof.
  induction lab as [|b lab IH]; [left; reflexivity|].
  cbn [length labs]. apply in_or_app.
  destruct b; [right|left]; apply in_map; exact IH.
Qed.

Lemma all_old_repeat : forall lab,
  existsb (@id bool) lab = false -> lab = repeat false (length lab).
Proof.
  induction lab as [|b lab IH]; intros H; [reflexivity|].
  cbn [existsb] in H. apply orb_false_iff in H. destruct H as [Hb Hl].
  unfold id in Hb. subst b. cbn [length repeat]. f_equal. exact (IH Hl).
Qed.

Lemma existsb_repeat_false : forall n, existsb (@id bool) (repeat false n) = false.
Proof. induction n as [|n IH]; [reflexivity|]. cbn [repeat existsb]. exact IH. Qed.

Lemma squeeze : forall (A : Type) (f : A -> N) (l : list A),
  (forall x, In x l -> f x <= 1) ->
  sumN (map f l) = sumN (map (fun _ => 1) l) ->
  forall x, In x l -> f x = 1.
Proof.
  intros A f l. induction l as [|y l IH]; intros Hle Hsum x Hin; [destruct Hin|].
  cbn [map] in Hsum. rewrite !sumN_cons in Hsum.
  assert (Hle' : sumN (map f l) <= sumN (map (fun _ => 1) l)).
  { clear - Hle. induction l as [|z l IH]; [cbn; lia|].
    cbn [map]. rewrite !sumN_cons.
    assert (f z <= 1) by (apply Hle; right; left; reflexivity).
    assert (sumN (map f l) <= sumN (map (fun _ : A => 1) l)).
    { apply IH. intros x [Hx|Hx]; apply Hle; [left|right; right]; assumption. }
    lia. }
  assert (Hy : f y <= 1) by (apply Hle; left; reflexivity).
  destruct Hin as [Hx|Hx].
  - subst y. lia.
  - apply IH; [|lia|exact Hx]. intros z Hz. apply Hle. right. exact Hz.
Qed.

(* ------------------------------------------------------------------------------------------ *)
(* 4. the positional criterion: sound and complete                                             *)
(* ------------------------------------------------------------------------------------------ *)

Lemma conflict_excl : forall r s lab,
  conflict r s = true -> subrule_accepts r lab = true -> subrule_accepts s lab = false.
Proof.
  unfold subrule_accepts.
  induction r as [|a r IH]; intros s lab Hc Hr; [discriminate|].
  destruct s as [|b s]; [discriminate|].
  destruct lab as [|l lab]; [discriminate|].
  cbn [conflict] in Hc. cbn [forallb2] in *.
  apply andb_true_iff in Hr. destruct Hr as [Ha Hr].
  apply orb_true_iff in Hc. destruct Hc as [Hc|Hc].
  - destruct a, b, l; try discriminate; reflexivity.
  - rewrite (IH s lab Hc Hr). apply andb_false_r.
Qed.

Lemma count_zero : forall fam lab,
  (forall s, In s fam -> subrule_accepts s lab = false) -> count fam lab = 0%nat.
Proof.
  induction fam as [|s fam IH]; intros lab H; [reflexivity|].
  rewrite count_cons, H by (left; reflexivity).
  rewrite IH; [reflexivity|]. intros s' Hs'. apply H. right. exact Hs'.
Qed.

Lemma pairwise_count_le1 : forall fam lab,
  pairwise_conflict fam = true -> (count fam lab <= 1)%nat.
Proof.
  induction fam as [|r fam IH]; intros lab Hp; [cbn; lia|].
  cbn [pairwise_conflict] in Hp. apply andb_true_iff in Hp. destruct Hp as [Hr Hp].
  rewrite count_cons. destruct (subrule_accepts r lab) eqn:Hacc.
  - rewrite count_zero; [lia|]. intros s Hs.
    rewrite forallb_forall in Hr. exact (conflict_excl r s lab (Hr s Hs) Hacc).
  - specialize (IH lab Hp). lia.
Qed.

Lemma new_rejects_all_old : forall r,
  existsb is_new r = true -> subrule_accepts r (repeat false (length r)) = false.
Proof.
  unfold subrule_accepts. induction r as [|a r IH]; intros H; [discriminate|].
  cbn [existsb] in H. cbn [length repeat forallb2].
  destruct a; cbn [is_new orb accepts negb andb] in *.
  - reflexivity.
  - exact (IH H).
  - exact (IH H).
Qed.

Lemma no_new_accepts_all_old : forall r,
  existsb is_new r = false -> subrule_accepts r (repeat false (length r)) = true.
Proof.
  unfold subrule_accepts. induction r as [|a r IH]; intros H; [reflexivity|].
  cbn [existsb] in H. cbn [length repeat forallb2].
  destruct a; cbn [is_new orb accepts negb andb] in *.
  - discriminate.
  - exact (IH H).
  - exact (IH H).
Qed.

Lemma total_volume : forall n fam,
  Forall (fun r => length r = n) fam ->
  sumN (map (fun lab => N.of_nat (count fam lab)) (labs n)) = sumN (map volume fam).
Proof.
  intros n fam HF.
  rewrite (map_ext _ _ (count_sum fam)).
  rewrite (sum_swap _ _ (fun r lab => b2n (subrule_accepts r lab)) fam (labs n)).
  f_equal. apply map_ext_in. intros r Hr. rewrite Forall_forall in HF.
  apply accepts_sum. exact (HF r Hr).
Qed.

Lemma forallb_length_Forall : forall n (fam : list (list age)),
  forallb (fun r => Nat.eqb (length r) n) fam = true <-> Forall (fun r => length r = n) fam.
Proof.
  intros n fam. rewrite forallb_forall, Forall_forall. split; intros H r Hr.
  - apply Nat.eqb_eq. exact (H r Hr).
  - apply Nat.eqb_eq. exact (H r Hr).
Qed.

Theorem pos_ok_sound : forall n fam,
  pos_ok n fam = true ->
  (n >= 1)%nat /\ Forall (fun r => length r = n) fam /\
  forall lab, length lab = n -> count fam lab = expected lab.
Proof.
  intros n fam Hok. unfold pos_ok in Hok.
  repeat (apply andb_true_iff in Hok; destruct Hok as [Hok ?H]).
  rename H into Hvol, H0 into Hpw, H1 into Hnew, H2 into Hlen.
  apply Nat.leb_le in Hok. apply N.eqb_eq in Hvol. apply forallb_length_Forall in Hlen.
  split; [exact Hok|]. split; [exact Hlen|].
  destruct (labs_split n) as [T [HT Htrue]].
  pose proof (total_volume n fam Hlen) as Htot.
  rewrite Hvol, HT in Htot. cbn [map] in Htot. rewrite sumN_cons in Htot.
  pose proof (ones_sum n) as Hones. rewrite HT in Hones. cbn [map] in Hones.
  rewrite sumN_cons in Hones.
  assert (Hzero : count fam (repeat false n) = 0%nat).
  { apply count_zero. intros s Hs. rewrite Forall_forall in Hlen.
    rewrite <- (Hlen s Hs). apply new_rejects_all_old.
    rewrite forallb_forall in Hnew. exact (Hnew s Hs). }
  rewrite Hzero in Htot.
  pose proof (pow2_nonzero (N.of_nat n)) as Hnz.
  assert (Hall : forall lab, In lab T -> N.of_nat (count fam lab) = 1).
  { apply squeeze.
    - intros lab _. pose proof (pairwise_count_le1 fam lab Hpw). lia.
    - cbn [N.of_nat] in Htot. lia. }
  intros lab Hlab. unfold expected.
  destruct (existsb (@id bool) lab) eqn:Hex.
  - pose proof (labs_complete lab) as Hin. rewrite Hlab, HT in Hin.
    destruct Hin as [Hz|Hin].
    + subst lab. rewrite existsb_repeat_false in Hex. discriminate.
    + specialize (Hall lab Hin). lia.
  - rewrite (all_old_repeat lab Hex), Hlab. exact Hzero.
Qed.

(* --- completeness --- *)

Definition witness_at (a b : age) : bool := is_new a || is_new b.

Fixpoint witness (r s : list age) : list bool :=
  match r, s with
  | a :: r', b :: s' => witness_at a b :: witness r' s'
  | _, _ => []
  end.

Lemma witness_length : forall r s, length r = length s -> length (witness r s) = length r.
Proof.
  induction r as [|a r IH]; intros s H; [reflexivity|].
  destruct s as [|b s]; [discriminate|]. cbn [witness length] in *.
  f_equal. apply IH. lia.
Qed.

Lemma witness_accepted : forall r s,
  length r = length s -> conflict r s = false ->
  subrule_accepts r (witness r s) = true /\ subrule_accepts s (witness r s) = true.
Proof.
  unfold subrule_accepts. induction r as [|a r IH]; intros s Hlen Hc.
  - destruct s; [split; reflexivity|discriminate].
  - destruct s as [|b s]; [discriminate|]. cbn [length] in Hlen.
    cbn [conflict] in Hc. apply orb_false_iff in Hc. destruct Hc as [Hab Hc].
    destruct (IH s ltac:(lia) Hc) as [H1 H2].
    cbn [witness forallb2]. rewrite H1, H2.
    destruct a, b; try discriminate; split; reflexivity.
Qed.

Lemma count_ge1 : forall fam lab s,
  In s fam -> subrule_accepts s lab = true -> (count fam lab >= 1)%nat.
Proof.
  induction fam as [|r fam IH]; intros lab s Hin Hacc; [destruct Hin|].
  rewrite count_cons. destruct Hin as [Hr|Hin].
  - subst r. rewrite Hacc. lia.
  - specialize (IH lab s Hin Hacc). lia.
Qed.

Lemma le1_pairwise : forall n fam,
  Forall (fun r => length r = n) fam ->
  (forall lab, length lab = n -> (count fam lab <= 1)%nat) ->
  pairwise_conflict fam = true.
Proof.
  intros n fam HF. induction HF as [|r fam Hr HF IH]; intros Hle; [reflexivity|].
  cbn [pairwise_conflict]. apply andb_true_iff. split.
  - apply forallb_forall. intros s Hs.
    destruct (conflict r s) eqn:Hc; [reflexivity|exfalso].
    rewrite Forall_forall in HF. pose proof (HF s Hs) as Hsl.
    destruct (witness_accepted r s ltac:(lia) Hc) as [H1 H2].
    pose proof (Hle (witness r s) ltac:(rewrite witness_length; lia)) as Hcnt.
    rewrite count_cons, H1 in Hcnt.
    pose proof (count_ge1 fam (witness r s) s Hs H2). lia.
  - apply IH. intros lab Hlab. specialize (Hle lab Hlab). rewrite count_cons in Hle. lia.
Qed.

Theorem pos_ok_complete : forall n fam,
  (n >= 1)%nat -> Forall (fun r => length r = n) fam ->
  (forall lab, length lab = n -> count fam lab = expected lab) ->
  pos_ok n fam = true.
Proof.
  intros n fam Hn Hlen Hspec. unfold pos_ok.
  repeat (apply andb_true_iff; split).
  - apply Nat.leb_le. exact Hn.
  - apply forallb_length_Forall. exact Hlen.
  - apply forallb_forall. intros r Hr.
    destruct (existsb is_new r) eqn:Hnew; [reflexivity|exfalso].
    rewrite Forall_forall in Hlen. pose proof (Hlen r Hr) as Hrl.
    pose proof (no_new_accepts_all_old r Hnew) as Hacc. rewrite Hrl in Hacc.
    pose proof (count_ge1 fam _ r Hr Hacc) as Hge.
    rewrite Hspec in Hge by apply repeat_length.
    unfold expected in Hge. rewrite existsb_repeat_false in Hge. lia.
  - apply (le1_pairwise n fam Hlen). intros lab Hlab. rewrite (Hspec lab Hlab).
    unfold expected. destruct (existsb (@id bool) lab); lia.
  - apply N.eqb_eq. rewrite <- (total_volume n fam Hlen).
    destruct (labs_split n) as [T [HT Htrue]].
    pose proof (ones_sum n) as Hones. rewrite HT in *. cbn [map] in *.
    rewrite sumN_cons in *.
    rewrite Hspec by apply repeat_length. unfold expected at 1.
    rewrite existsb_repeat_false.
    assert (Heq : map (fun lab => N.of_nat (count fam lab)) T = map (fun _ => 1) T).
    { apply map_ext_in. intros lab Hin.
      assert (Hl : length lab = n).
      { assert (Hin' : In lab (labs n)) by (rewrite HT; right; exact Hin).
        clear - Hin'. revert lab Hin'. induction n as [|n IH]; intros lab Hin'.
        - destruct Hin' as [H|[]]. subst lab. reflexivity.
        - cbn [labs] in Hin'. apply in_app_or in Hin'.
          destruct Hin' as [H|H]; apply in_map_iff in H; destruct H as [l [Hl H]];
            subst lab; cbn [length]; f_equal; exact (IH l H). }
      rewrite (Hspec lab Hl). unfold expected. rewrite (Htrue lab Hin). reflexivity. }
    rewrite Heq. cbn [N.of_nat]. lia.
Qed.

(* ------------------------------------------------------------------------------------------ *)
(* 5. identified families: normalisation                                                       *)
(* ------------------------------------------------------------------------------------------ *)

Close Scope N_scope.

(* "mentions each atom id 0..n-1 exactly once (and nothing else)" *)
Definition wf_irule (n : nat) (r : irule) : Prop :=
  length r = n /\
  forall j, j < n -> count_occ N.eq_dec (map fst r) (N.of_nat j) = 1.

Lemma collect_spec : forall l p,
  collect l = Some p -> l = map (fun a => [a]) p.
Proof.
  induction l as [|x l IH]; intros p H.
  - cbn in H. injection H as H. subst p. reflexivity.
  - cbn [collect] in H. destruct x as [|a [|b x]]; try discriminate.
    destruct (collect l) as [q|] eqn:Hq; [|discriminate].
    injection H as H. subst p. cbn [map]. f_equal. exact (IH q eq_refl).
Qed.

Lemma collect_map : forall (A : Type) (f : A -> list age) (g : A -> age) (js : list A),
  (forall j, In j js -> f j = [g j]) -> collect (map f js) = Some (map g js).
Proof.
  intros A f g js. induction js as [|j js IH]; intros H; [reflexivity|].
  cbn [map collect]. rewrite (H j) by (left; reflexivity).
  rewrite IH; [reflexivity|]. intros k Hk. apply H. right. exact Hk.
Qed.

Lemma nseq_length : forall len start, length (nseq start len) = len.
Proof. induction len as [|len IH]; intros start; cbn [nseq length]; [|rewrite IH]; reflexivity. Qed.

Lemma nseq_in : forall len start x,
  In x (nseq start len) <-> (start <= x /\ x < start + N.of_nat len)%N.
Proof.
  induction len as [|len IH]; intros start x; cbn [nseq In].
  - lia.
  - rewrite IH. lia.
Qed.

Lemma nseq_nth : forall len start j,
  j < len -> nth_error (nseq start len) j = Some (start + N.of_nat j)%N.
Proof.
  induction len as [|len IH]; intros start j Hj; [lia|].
  destruct j as [|j]; cbn [nseq nth_error].
  - f_equal. lia.
  - rewrite IH by lia. f_equal. lia.
Qed.

Lemma map_fst_tag_from : forall r k, map fst (tag_from k r) = nseq k (length r).
Proof.
  induction r as [|a r IH]; intros k; [reflexivity|].
  cbn [tag_from map fst length nseq]. f_equal. apply IH.
Qed.

Lemma nseq_NoDup : forall len start, NoDup (nseq start len).
Proof.
  induction len as [|len IH]; intros start; cbn [nseq]; constructor.
  - rewrite nseq_in. lia.
  - apply IH.
Qed.

Lemma tag_NoDup : forall r, NoDup (tag r).
Proof.
  intros r. apply (NoDup_map_inv fst). unfold tag. rewrite map_fst_tag_from. apply nseq_NoDup.
Qed.

Lemma tag_from_in : forall r k j a,
  In (j, a) (tag_from k r) ->
  exists i, i < length r /\ j = (k + N.of_nat i)%N /\ nth_error r i = Some a.
Proof.
  induction r as [|b r IH]; intros k j a Hin; [destruct Hin|].
  cbn [tag_from] in Hin. destruct Hin as [Heq|Hin].
  - injection Heq as Hk Hb. subst. exists 0. cbn [length nth_error]. repeat split; lia.
  - destruct (IH _ _ _ Hin) as [i [Hi [Hj Hn]]]. exists (S i).
    cbn [length nth_error]. repeat split; [lia|lia|exact Hn].
Qed.

Lemma ages_of_in : forall r j a, ages_of r j = [a] -> In (j, a) r.
Proof.
  intros r j a H. unfold ages_of in H.
  assert (Hin : In a (map snd (filter (fun p : N * age => N.eqb (fst p) j) r))).
  { rewrite H. left. reflexivity. }
  apply in_map_iff in Hin. destruct Hin as [[k b] [Hb Hin]]. cbn [snd] in Hb. subst b.
  apply filter_In in Hin. destruct Hin as [Hin Hk]. cbn [fst] in Hk.
  apply N.eqb_eq in Hk. subst k. exact Hin.
Qed.

Lemma normalize_spec : forall n r p,
  normalize n r = Some p ->
  length r = n /\ length p = n /\
  forall j, j < n -> exists a, nth_error p j = Some a /\ ages_of r (N.of_nat j) = [a].
Proof.
  intros n r p H. unfold normalize in H.
  destruct (Nat.eqb (length r) n) eqn:Hlen; [|discriminate].
  apply Nat.eqb_eq in Hlen. apply collect_spec in H.
  split; [exact Hlen|].
  assert (Hpl : length p = n).
  { apply (f_equal (@length _)) in H. rewrite !map_length, nseq_length in H. lia. }
  split; [exact Hpl|].
  intros j Hj.
  destruct (nth_error p j) as [a|] eqn:Hnth.
  - exists a. split; [reflexivity|].
    apply (f_equal (fun l => nth_error l j)) in H.
    rewrite (map_nth_error _ _ _ Hnth) in H.
    rewrite (map_nth_error (ages_of r) j (nseq 0%N n) (nseq_nth n 0%N j Hj)) in H.
    injection H as H. rewrite <- H. f_equal.
  - apply nth_error_None in Hnth. lia.
Qed.

Lemma normalize_perm : forall n r p, normalize n r = Some p -> Permutation (tag p) r.
Proof.
  intros n r p H. destruct (normalize_spec n r p H) as [Hr [Hp Hages]].
  apply NoDup_Permutation_bis.
  - apply tag_NoDup.
  - assert (Htl : length (tag p) = length p).
    { rewrite <- (map_length fst). unfold tag. rewrite map_fst_tag_from. apply nseq_length. }
    lia.
  - intros [j a] Hin. unfold tag in Hin.
    destruct (tag_from_in _ _ _ _ Hin) as [i [Hi [Hj Hn]]].
    destruct (Hages i ltac:(lia)) as [a' [Hn' Ha']].
    rewrite Hn in Hn'. injection Hn' as Hn'. subst a'.
    apply ages_of_in. replace j with (N.of_nat i) by lia. exact Ha'.
Qed.

Lemma normalize_accepts : forall n r p lab,
  normalize n r = Some p -> length lab = n -> iaccepts r lab = subrule_accepts p lab.
Proof.
  intros n r p lab H Hlab.
  rewrite <- (iaccepts_perm _ _ lab (normalize_perm n r p H)).
  apply iaccepts_tag. destruct (normalize_spec n r p H) as [_ [Hp _]]. lia.
Qed.

Lemma filter_length_count_occ : forall (r : irule) j,
  length (filter (fun p : N * age => N.eqb (fst p) j) r) = count_occ N.eq_dec (map fst r) j.
Proof.
  induction r as [|[k a] r IH]; intros j; [reflexivity|].
  cbn [filter map fst count_occ].
  destruct (N.eqb k j) eqn:Hk; destruct (N.eq_dec k j) as [He|He].
  - cbn [length]. rewrite IH. reflexivity.
  - apply N.eqb_eq in Hk. contradiction.
  - apply N.eqb_neq in Hk. contradiction.
  - apply IH.
Qed.

Lemma normalize_wf : forall n r p, normalize n r = Some p -> wf_irule n r.
Proof.
  intros n r p H. destruct (normalize_spec n r p H) as [Hr [Hp Hages]].
  split; [exact Hr|]. intros j Hj. destruct (Hages j Hj) as [a [_ Ha]].
  rewrite <- filter_length_count_occ. unfold ages_of in Ha.
  apply (f_equal (@length _)) in Ha. rewrite map_length in Ha. exact Ha.
Qed.

Lemma wf_normalize : forall n r, wf_irule n r -> exists p, normalize n r = Some p.
Proof.
  intros n r [Hr Hocc]. unfold normalize. rewrite Hr, Nat.eqb_refl.
  set (g := fun j : N => match ages_of r j with a :: _ => a | [] => All end).
  exists (map g (nseq 0%N n)). apply collect_map. intros j Hj.
  apply nseq_in in Hj.
  assert (Hlen : length (ages_of r j) = 1).
  { unfold ages_of. rewrite map_length, filter_length_count_occ.
    replace j with (N.of_nat (N.to_nat j)) by lia. apply Hocc. lia. }
  unfold g. destruct (ages_of r j) as [|a [|b l]]; try discriminate. reflexivity.
Qed.

Lemma normalize_all_spec : forall n fam pos,
  normalize_all n fam = Some pos -> Forall2 (fun r p => normalize n r = Some p) fam pos.
Proof.
  induction fam as [|r fam IH]; intros pos H.
  - cbn in H. injection H as H. subst pos. constructor.
  - cbn [normalize_all] in H. destruct (normalize n r) as [p|] eqn:Hp; [|discriminate].
    destruct (normalize_all n fam) as [ps|] eqn:Hps; [|discriminate].
    injection H as H. subst pos. constructor; [exact Hp|]. exact (IH ps eq_refl).
Qed.

Lemma normalize_all_total : forall n fam,
  Forall (wf_irule n) fam -> exists pos, normalize_all n fam = Some pos.
Proof.
  intros n fam HF. induction HF as [|r fam Hr HF [pos IH]].
  - exists []. reflexivity.
  - destruct (wf_normalize n r Hr) as [p Hp]. exists (p :: pos).
    cbn [normalize_all]. rewrite Hp, IH. reflexivity.
Qed.

Lemma normalized_count : forall n fam pos lab,
  Forall2 (fun r p => normalize n r = Some p) fam pos -> length lab = n ->
  icount fam lab = count pos lab.
Proof.
  intros n fam pos lab HF Hlab. induction HF as [|r p fam pos Hp HF IH]; [reflexivity|].
  rewrite icount_cons, count_cons, IH, (normalize_accepts n r p lab Hp Hlab). reflexivity.
Qed.

Lemma normalized_lengths : forall n fam pos,
  Forall2 (fun r p => normalize n r = Some p) fam pos -> Forall (fun p => length p = n) pos.
Proof.
  intros n fam pos HF. induction HF as [|r p fam pos Hp HF IH]; constructor; [|exact IH].
  destruct (normalize_spec n r p Hp) as [_ [H _]]. exact H.
Qed.

Lemma normalized_wf : forall n fam pos,
  Forall2 (fun r p => normalize n r = Some p) fam pos -> Forall (wf_irule n) fam.
Proof.
  intros n fam pos HF. induction HF as [|r p fam pos Hp HF IH]; constructor; [|exact IH].
  exact (normalize_wf n r p Hp).
Qed.

Theorem family_ok_sound : forall fam,
  family_ok fam = true ->
  let n := fam_arity fam in
  n >= 1 /\ Forall (wf_irule n) fam /\
  forall lab, length lab = n -> icount fam lab = if existsb (@id bool) lab then 1 else 0.
Proof.
  intros fam Hok n. unfold family_ok in Hok. fold n in Hok.
  destruct (normalize_all n fam) as [pos|] eqn:Hnorm; [|discriminate].
  apply normalize_all_spec in Hnorm.
  destruct (pos_ok_sound n pos Hok) as [Hn [_ Hspec]].
  split; [exact Hn|]. split; [exact (normalized_wf n fam pos Hnorm)|].
  intros lab Hlab. rewrite (normalized_count n fam pos lab Hnorm Hlab).
  exact (Hspec lab Hlab).
Qed.

Theorem family_ok_complete : forall fam,
  let n := fam_arity fam in
  n >= 1 -> Forall (wf_irule n) fam ->
  (forall lab, length lab = n -> icount fam lab = if existsb (@id bool) lab then 1 else 0) ->
  family_ok fam = true.
Proof.
  intros fam n Hn Hwf Hspec. unfold family_ok. fold n.
  destruct (normalize_all_total n fam Hwf) as [pos Hnorm]. rewrite Hnorm.
  apply normalize_all_spec in Hnorm.
  apply pos_ok_complete; [exact Hn|exact (normalized_lengths n fam pos Hnorm)|].
  intros lab Hlab. rewrite <- (normalized_count n fam pos lab Hnorm Hlab).
  exact (Hspec lab Hlab).
Qed.

(* the enumeration agrees with the criterion (used only as a cross-check) *)
Theorem family_ok_enum_iff : forall fam, family_ok_enum fam = family_ok fam.
Proof.
  intros fam. destruct (family_ok fam) eqn:Hok.
  - destruct (family_ok_sound fam Hok) as [Hn [Hwf Hspec]].
    unfold family_ok_enum.
    destruct (normalize_all_total _ fam Hwf) as [pos Hnorm]. rewrite Hnorm.
    apply andb_true_iff. split; [apply Nat.leb_le; exact Hn|].
    apply forallb_forall. intros lab Hin. apply Nat.eqb_eq.
    apply Hspec. clear - Hin. revert lab Hin.
    induction (fam_arity fam) as [|n IH]; intros lab Hin.
    + destruct Hin as [H|[]]. subst lab. reflexivity.
    + cbn [labs] in Hin. apply in_app_or in Hin.
      destruct Hin as [H|H]; apply in_map_iff in H; destruct H as [l [Hl H]];
        subst lab; cbn [length]; f_equal; exact (IH l H).
  - destruct (family_ok_enum fam) eqn:Hen; [|reflexivity]. exfalso.
    unfold family_ok_enum in Hen. apply andb_true_iff in Hen. destruct Hen as [Hn Hen].
    apply Nat.leb_le in Hn.
    destruct (normalize_all (fam_arity fam) fam) as [pos|] eqn:Hnorm; [|discriminate].
    rewrite forallb_forall in Hen.
    assert (Htrue : family_ok fam = true).
    { apply family_ok_complete; [exact Hn| |].
      - exact (normalized_wf _ fam pos (normalize_all_spec _ _ _ Hnorm)).
      - intros lab Hlab. apply Nat.eqb_eq. apply Hen. rewrite <- Hlab. apply labs_complete. }
    rewrite Htrue in Hok. discriminate.
Qed.

(* ------------------------------------------------------------------------------------------ *)
(* 6. the family printed by to_semi_naive passes the checker, for every n >= 1, also after      *)
(*    sort_premise                                                                              *)
(* ------------------------------------------------------------------------------------------ *)

Lemma count_occ_nseq : forall len start x,
  (start <= x)%N -> (x < start + N.of_nat len)%N -> count_occ N.eq_dec (nseq start len) x = 1.
Proof.
  induction len as [|len IH]; intros start x H1 H2; [lia|].
  cbn [nseq count_occ]. destruct (N.eq_dec start x) as [He|He].
  - f_equal. apply count_occ_not_In. rewrite nseq_in. lia.
  - apply IH; lia.
Qed.

Lemma tag_wf : forall r, wf_irule (length r) (tag r).
Proof.
  intros r. split.
  - rewrite <- (map_length fst). unfold tag. rewrite map_fst_tag_from. apply nseq_length.
  - intros j Hj. unfold tag. rewrite map_fst_tag_from. apply count_occ_nseq; lia.
Qed.

Lemma wf_irule_perm : forall n r r', Permutation r r' -> wf_irule n r -> wf_irule n r'.
Proof.
  intros n r r' HP [Hlen Hocc]. split.
  - rewrite <- (Permutation_length HP). exact Hlen.
  - intros j Hj. rewrite <- (Hocc j Hj). symmetry.
    apply Permutation_count_occ. apply Permutation_map. exact HP.
Qed.

Lemma tagged_perm_wf : forall n pos fam,
  Forall (fun r => length r = n) pos ->
  Forall2 (@Permutation (N * age)) (map tag pos) fam -> Forall (wf_irule n) fam.
Proof.
  intros n pos. induction pos as [|p pos IH]; intros fam Hl HF; cbn [map] in HF.
  - inversion HF. constructor.
  - inversion HF as [|r r' l l' HP HF' E1 E2].
    apply Forall_cons_iff in Hl. destruct Hl as [Hp Hl].
    constructor.
    + apply (wf_irule_perm n (tag p) r' HP). rewrite <- Hp. apply tag_wf.
    + exact (IH l' Hl HF').
Qed.

Theorem sorted_semi_naive_ok : forall n fam,
  n >= 1 -> Forall2 (@Permutation (N * age)) (tagged_semi_naive n) fam -> family_ok fam = true.
Proof.
  intros n fam Hn HF.
  assert (Hwf : Forall (wf_irule n) fam).
  { exact (tagged_perm_wf n (to_semi_naive n) fam (to_semi_naive_lengths n) HF). }
  assert (Har : fam_arity fam = n).
  { destruct fam as [|r fam].
    - destruct n as [|n]; [lia|]. inversion HF.
    - cbn [fam_arity]. apply Forall_cons_iff in Hwf. destruct Hwf as [[Hr _] _]. exact Hr. }
  apply family_ok_complete; rewrite Har; [exact Hn|exact Hwf|].
  intros lab Hlab. exact (semi_naive_exact_perm n lab fam Hlab Hn HF).
Qed.

(* ------------------------------------------------------------------------------------------ *)
(* 7. the symmetric variant                                                                     *)
(* ------------------------------------------------------------------------------------------ *)

Theorem family_ok_sym_sound : forall fam,
  family_ok_sym fam = true ->
  Forall (wf_irule 2) fam /\
  forall lab, length lab = 2 ->
    (existsb (@id bool) lab = true ->
       icount fam lab + icount fam (swap lab) >= 1 /\ icount fam lab <= 1) /\
    (existsb (@id bool) lab = false ->
       icount fam lab + icount fam (swap lab) = 0).
Proof.
  intros fam Hok. unfold family_ok_sym in Hok.
  destruct (normalize_all 2 fam) as [pos|] eqn:Hnorm; [|discriminate].
  split; [exact (normalized_wf 2 fam pos (normalize_all_spec _ _ _ Hnorm))|].
  intros lab Hlab. rewrite forallb_forall in Hok.
  assert (Hin : In lab labs2).
  { destruct lab as [|b0 [|b1 [|b2 lab]]]; try discriminate.
    destruct b0, b1; cbn; tauto. }
  specialize (Hok lab Hin). unfold sym_ok_at in Hok.
  destruct (existsb (@id bool) lab); split; intros Hex; try discriminate.
  - apply andb_true_iff in Hok. destruct Hok as [H1 H2].
    apply Nat.leb_le in H1. apply Nat.leb_le in H2. lia.
  - apply Nat.eqb_eq in Hok. exact Hok.
Qed.
