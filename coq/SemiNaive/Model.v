(* Model of the semi-naive sub-rule families of eqlog (property C16).

   SOURCE  /repo/eqlog/src/flat_eqlog/semi_naive.rs::to_semi_naive  (lines 82-127)
           /repo/eqlog/src/flat_eqlog/mod.rs::semi_naive_functionality
           /repo/eqlog/src/flatten.rs::flatten  (to_semi_naive, then use_rels_with_diagonals,
           then sort_premise on every sub-rule independently; the functionality rule is emitted as
           ONE sub-rule `f(a,r0)[new], f(a,r1)[all]` and never goes through to_semi_naive)
           /repo/eqlog/src/flat_eqlog/sort.rs::sort_premise  (a sequence of `premise.swap`s, i.e. a
           permutation of the atoms of one sub-rule; every atom keeps its own age)

   No proofs in this file. *)

From Coq Require Import List NArith Bool.
Import ListNotations.

(* QueryAge of eqlog/src/flat_eqlog/ast.rs *)
Inductive age : Type := New | Old | All.

(* -------- positional families: sub-rule = list of ages, atom j is position j -------- *)

(* semi_naive.rs:106-110   match i.cmp(&j) { Less => Old, Equal => New, Greater => All } *)
Definition age_of (i j : nat) : age :=
  match Nat.compare i j with
  | Lt => Old
  | Eq => New
  | Gt => All
  end.

Definition subrule (n i : nat) : list age := map (age_of i) (seq 0 n).

(* semi_naive.rs:91-95: an empty premise is returned unchanged (one sub-rule without atoms);
   otherwise sub-rules 0 .. n-1. *)
Definition to_semi_naive (n : nat) : list (list age) :=
  match n with
  | O => [ [] ]
  | S _ => map (subrule n) (seq 0 n)
  end.

(* does a query of age [a] see a tuple whose label is [b] (true = the tuple is new)?
   New reads only the new index, Old only the old index, All both. *)
Definition accepts (a : age) (b : bool) : bool :=
  match a with
  | New => b
  | Old => negb b
  | All => true
  end.

Fixpoint forallb2 {A B : Type} (f : A -> B -> bool) (l : list A) (m : list B) : bool :=
  match l, m with
  | [], [] => true
  | a :: l', b :: m' => f a b && forallb2 f l' m'
  | _, _ => false
  end.

(* lab : labelling of the matched tuples, lab[j] = true iff the tuple matched by atom j is new *)
Definition subrule_accepts (ages : list age) (lab : list bool) : bool := forallb2 accepts ages lab.

(* number of sub-rules of the family that enumerate a match with labelling [lab] *)
Definition count (fam : list (list age)) (lab : list bool) : nat :=
  length (filter (fun r => subrule_accepts r lab) fam).

(* -------- identified families: atoms carry identifiers, sub-rule = list of (atom id, age) -------- *)

Definition irule : Type := list (N * age).

Definition lookup (lab : list bool) (k : N) : bool := nth (N.to_nat k) lab false.

Definition iaccepts (r : irule) (lab : list bool) : bool :=
  forallb (fun p : N * age => accepts (snd p) (lookup lab (fst p))) r.

Definition icount (fam : list irule) (lab : list bool) : nat :=
  length (filter (fun r => iaccepts r lab) fam).

(* attach identifiers 0,1,2,.. to the atoms of a positional sub-rule *)
Fixpoint tag_from (k : N) (r : list age) : irule :=
  match r with
  | [] => []
  | a :: r' => (k, a) :: tag_from (N.succ k) r'
  end.
Definition tag (r : list age) : irule := tag_from 0%N r.

(* the family as emitted, before sort_premise *)
Definition tagged_semi_naive (n : nat) : list irule := map tag (to_semi_naive n).

(* -------- the checker -------- *)

(* ages of atom id [j] in sub-rule [r] (all occurrences) *)
Definition ages_of (r : irule) (j : N) : list age :=
  map snd (filter (fun p : N * age => N.eqb (fst p) j) r).

Fixpoint nseq (start : N) (len : nat) : list N :=
  match len with
  | O => []
  | S len' => start :: nseq (N.succ start) len'
  end.

(* Some positional sub-rule iff [r] has exactly n atoms and mentions each id 0..n-1 exactly once *)
Fixpoint collect (l : list (list age)) : option (list age) :=
  match l with
  | [] => Some []
  | [a] :: l' => match collect l' with Some r => Some (a :: r) | None => None end
  | _ :: _ => None
  end.

Definition normalize (n : nat) (r : irule) : option (list age) :=
  if Nat.eqb (length r) n then collect (map (ages_of r) (nseq 0%N n)) else None.

Fixpoint normalize_all (n : nat) (fam : list irule) : option (list (list age)) :=
  match fam with
  | [] => Some []
  | r :: fam' =>
      match normalize n r, normalize_all n fam' with
      | Some p, Some ps => Some (p :: ps)
      | _, _ => None
      end
  end.

(* two positional sub-rules can never accept the same labelling: at some atom one reads only new
   tuples and the other only old ones *)
Definition conflict_at (a b : age) : bool :=
  match a, b with
  | New, Old => true
  | Old, New => true
  | _, _ => false
  end.

Fixpoint conflict (r s : list age) : bool :=
  match r, s with
  | a :: r', b :: s' => conflict_at a b || conflict r' s'
  | _, _ => false
  end.

Fixpoint pairwise_conflict (fam : list (list age)) : bool :=
  match fam with
  | [] => true
  | r :: fam' => forallb (conflict r) fam' && pairwise_conflict fam'
  end.

Definition is_new (a : age) : bool := match a with New => true | _ => false end.
Definition is_all (a : age) : bool := match a with All => true | _ => false end.

(* number of labellings of the n atoms accepted by sub-rule r: 2^(number of All atoms) *)
Definition volume (r : list age) : N := N.pow 2 (N.of_nat (length (filter is_all r))).

Definition sumN (l : list N) : N := fold_right N.add 0%N l.

(* Syntactic criterion for a positional family of arity n (n >= 1):
     - every sub-rule contains a New atom          (no sub-rule accepts the all-old labelling)
     - any two sub-rules conflict                   (no labelling is accepted twice)
     - the volumes add up to 2^n - 1                (hence every other labelling is accepted)
   It is sound and complete (Facts.v: pos_ok_sound, pos_ok_complete), and costs
   O(k^2 n) for k sub-rules instead of 2^n. *)
Definition pos_ok (n : nat) (fam : list (list age)) : bool :=
  Nat.leb 1 n
  && forallb (fun r => Nat.eqb (length r) n) fam
  && forallb (existsb is_new) fam
  && pairwise_conflict fam
  && N.eqb (sumN (map volume fam)) (N.pow 2 (N.of_nat n) - 1)%N.

(* arity of an identified family: the number of atoms of its first sub-rule *)
Definition fam_arity (fam : list irule) : nat :=
  match fam with
  | [] => O
  | r :: _ => length r
  end.

Definition family_ok (fam : list irule) : bool :=
  let n := fam_arity fam in
  match normalize_all n fam with
  | Some pos => pos_ok n pos
  | None => false
  end.

(* -------- the symmetric variant for the functionality rule -------- *)

(* exchanging the roles of the two (interchangeable) atoms *)
Definition swap (lab : list bool) : list bool :=
  match lab with
  | [b0; b1] => [b1; b0]
  | _ => lab
  end.

Definition labs2 : list (list bool) :=
  [ [false; false]; [false; true]; [true; false]; [true; true] ].

Definition sym_ok_at (fam : list irule) (lab : list bool) : bool :=
  if existsb (@id bool) lab
  then Nat.leb 1 (icount fam lab + icount fam (swap lab)) && Nat.leb (icount fam lab) 1
  else Nat.eqb (icount fam lab + icount fam (swap lab)) 0.

(* Two atoms only, so the four labellings are enumerated. Every sub-rule must mention the atom
   ids 0 and 1 exactly once; for every labelling with a new tuple the match or its mirror image is
   enumerated (and the match itself at most once), for the all-old labelling neither is. *)
Definition family_ok_sym (fam : list irule) : bool :=
  match normalize_all 2 fam with
  | Some _ => forallb (sym_ok_at fam) labs2
  | None => false
  end.

(* the functionality rule as emitted (mod.rs:53-64) *)
Definition functionality_family : list irule := [ [ (0%N, New); (1%N, All) ] ].

(* -------- reference: brute-force enumeration (used only in Examples and for cross-checking) -------- *)

Fixpoint labs (n : nat) : list (list bool) :=
  match n with
  | O => [ [] ]
  | S n' => map (cons false) (labs n') ++ map (cons true) (labs n')
  end.

Definition expected (lab : list bool) : nat := if existsb (@id bool) lab then 1 else 0.

Definition family_ok_enum (fam : list irule) : bool :=
  let n := fam_arity fam in
  Nat.leb 1 n &&
  match normalize_all n fam with
  | Some _ => forallb (fun lab => Nat.eqb (icount fam lab) (expected lab)) (labs n)
  | None => false
  end.
