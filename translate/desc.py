"""translate/desc.py - reads the *emitted text* of a generated eqlog module (<name>.eql.rs, module mode) and
extracts a descriptor of what the generated code does with the redundant copies of every relation:

  * the struct's fields (index fields: relation, age, column order, diagonal, PrefixTree arity; element indices;
    per type: Unification / weights / uprooted / type sets),
  * per relation what insert_<rel>, canonicalize, move_new_to_old, is_dirty, <rel>(..) / iter_<rel> read and
    write: which field, under which guard expression, with which argument list.

Everything is matched against the shapes rust_gen/mod.rs prints today; anything unrecognised raises DescError
(the caller reports that as a broken correspondence, never silently skips it).  Nothing is taken from the
compiler's data structures: the descriptor describes the text that rustc will compile.

Also generates `inspect.rs`, Rust source to be include!()d in the same module as the generated code (the fields
are private), defining `impl <Theory> { pub fn verif_inspect(&self) -> String }` that prints every index field,
every element index, type sets, uprooted lists, weights and the root of every element.

Descriptor (python dict, JSON-able):
  {"theory": "Thy",
   "types": [{"name": "Ta", "snake": "ta", "new": field, "old": field}],
   "fields": [{"name", "kind": "index"|"typeset", "rel"|"type", "age", "order", "diag"|None, "ptarity"}],
   "efields": [{"name", "rel", "type"}],
   "rels": [{"name", "cols": [type idx], "func": bool, "arity": n,
             "indices": [field names],                      # positions = field numbers used below
             "contains": [(k, args)], "ins": [(k, guard, args)], "epush": [(col, [neq cols], type)],
             "src_types": [type idx], "prim_new": (k, args), "rm_new": [(k, guard, args)],
             "prim_old": (k, args), "rm_old": [...],
             "mv_iter": (k, pattern), "mv_fill": [(k, guard, args)], "mv_clear": [k],
             "dirty": k, "q_contains": [(k, args)], "q_iter": [(k, pattern)], "q_eval": [(k, gets)]}]}
  guard = ["true"] | ["eq", i, j] | ["not", g] | ["and", g, g] | ["or", g, g]
"""
import re


class DescError(Exception):
    pass


# ------------------------------------------------------------------------------------------------ text utilities

def _strip(text):
    """Remove comments and attributes; turn `// Canonicalize <rel>.` into a marker; collapse whitespace."""
    text = re.sub(r"//\s*Canonicalize\s+([A-Za-z_0-9]+)\.\s*$", r"@CANON \1;", text, flags=re.M)
    text = re.sub(r"//[^\n]*", "", text)
    text = re.sub(r"#!?\[[^\]\n]*\]", "", text)
    return re.sub(r"\s+", " ", text).strip()


def _match_brace(text, i):
    """text[i] == '{' -> index just after the matching '}'."""
    assert text[i] == "{", text[i:i + 30]
    depth = 0
    for j in range(i, len(text)):
        if text[j] == "{":
            depth += 1
        elif text[j] == "}":
            depth -= 1
            if depth == 0:
                return j + 1
    raise DescError("unbalanced braces after %r" % text[i:i + 60])


class Eater:
    """Consumes a normalised text statement by statement; every piece must be recognised."""

    def __init__(self, text, where):
        self.t = text
        self.p = 0
        self.where = where

    def _skip(self):
        while self.p < len(self.t) and self.t[self.p] == " ":
            self.p += 1

    def eat(self, pattern):
        self._skip()
        m = re.compile(pattern).match(self.t, self.p)
        if m:
            self.p = m.end()
        return m

    def expect(self, pattern, what=""):
        m = self.eat(pattern)
        if not m:
            raise DescError("%s: expected %s /%s/ at: %r" % (self.where, what, pattern, self.t[self.p:self.p + 160]))
        return m

    def done(self):
        self._skip()
        return self.p >= len(self.t)

    def finish(self):
        if not self.done():
            raise DescError("%s: unrecognised text: %r" % (self.where, self.t[self.p:self.p + 200]))


ARGS = r"\[((?:el\d+(?:, el\d+)*)?)\]"


def _args(s):
    s = s.strip()
    return [int(x.strip()[2:]) for x in s.split(",")] if s else []


def parse_guard(s, where):
    """`el1 == el0 && el2 == el0` (or with `||`; `&&` binds tighter, no parentheses are ever printed)."""
    s = s.strip()
    if s == "" or s == "true":
        return ["true"]

    def atom(a):
        m = re.fullmatch(r"el(\d+) == el(\d+)", a.strip())
        if m:
            return ["eq", int(m.group(1)), int(m.group(2))]
        m = re.fullmatch(r"el(\d+) != el(\d+)", a.strip())
        if m:
            return ["not", ["eq", int(m.group(1)), int(m.group(2))]]
        if a.strip() == "true":
            return ["true"]
        raise DescError("%s: unrecognised guard atom %r" % (where, a))

    def conj(c):
        parts = [atom(a) for a in c.split("&&")]
        g = parts[-1]
        for p in reversed(parts[:-1]):
            g = ["and", p, g]
        return g
    parts = [conj(c) for c in s.split("||")]
    g = parts[-1]
    for p in reversed(parts[:-1]):
        g = ["or", p, g]
    return g


def guard_eval(g, row):
    k = g[0]
    if k == "true":
        return True
    if k == "eq":
        return row[g[1]] == row[g[2]]
    if k == "not":
        return not guard_eval(g[1], row)
    if k == "and":
        return guard_eval(g[1], row) and guard_eval(g[2], row)
    if k == "or":
        return guard_eval(g[1], row) or guard_eval(g[2], row)
    raise ValueError(g)


# ------------------------------------------------------------------------------------------------ module parser

FIELD_RE = re.compile(r"^(?P<rel>[a-z][a-z0-9_]*?)_(?P<age>new|old)(?:_eqs_(?P<eqs>\d+(?:_\d+)*))?_order_(?P<ord>(?:\d+(?:_\d+)*)?)$")


def _nums(s):
    return [int(x) for x in s.split("_")] if s else []


def stored_cols(order, diag, arity):
    eqs = diag if diag is not None else list(range(arity))
    reps = [i for i, e in enumerate(eqs) if e == i]
    return [reps[p] for p in order]


def parse_module(text):
    m = re.search(r"/// A model of the `(\w+)` theory\.\s*pub struct (\w+) \{", text)
    if not m or m.group(1) != m.group(2):
        raise DescError("theory struct not found")
    theory = m.group(2)
    open_i = text.index("{", m.start())
    struct_body = _strip(text[open_i + 1:_match_brace(text, open_i) - 1])
    rest = text[_match_brace(text, open_i):]

    # ---- the impl block of the theory: split into functions
    im = re.search(r"\nimpl %s \{" % theory, rest)
    if not im:
        raise DescError("impl %s not found" % theory)
    io = rest.index("{", im.start())
    impl_body = rest[io + 1:_match_brace(rest, io) - 1]
    after_impl = _strip(rest[_match_brace(rest, io):])
    if after_impl != "":
        raise DescError("text after impl %s: %r" % (theory, after_impl[:100]))
    fns = {}
    order_of_fns = []
    pos = 0
    body_norm = impl_body
    for fm in re.finditer(r"(?:pub )?fn (\w+)\s*(?:<[^>]*>)?\(", body_norm):
        if fm.start() < pos:
            continue
        name = fm.group(1)
        bo = body_norm.index("{", fm.end())
        # the signature may contain `impl Fn(&Self) -> bool` but never a brace
        be = _match_brace(body_norm, bo)
        sig = _strip(body_norm[fm.start():bo])
        if name in fns:
            raise DescError("duplicate fn %s" % name)
        fns[name] = (sig, _strip(body_norm[bo + 1:be - 1]))
        order_of_fns.append(name)
        between = _strip(body_norm[pos:fm.start()])
        if between != "":
            raise DescError("unrecognised text before fn %s: %r" % (name, between[:120]))
        pos = be
    if _strip(body_norm[pos:]) != "":
        raise DescError("unrecognised text at the end of impl: %r" % _strip(body_norm[pos:])[:120])

    # ---- types: from the struct's Unification fields
    types = []
    for tm in re.finditer(r"(\w+)_equalities: Unification<(\w+)>,", struct_body):
        types.append({"name": tm.group(2), "snake": tm.group(1)})
    tsnake = {t["snake"]: i for i, t in enumerate(types)}
    tname = {t["name"]: i for i, t in enumerate(types)}

    # ---- relations: from insert_<rel> signatures
    rels = []
    for name in order_of_fns:
        if not name.startswith("insert_"):
            continue
        sig = fns[name][0]
        sm = re.fullmatch(r"pub fn insert_(\w+)\(&mut self, ?((?:el\d+: \w+(?:, )?)*)\)", sig)
        if not sm:
            raise DescError("insert signature: %r" % sig)
        cols = []
        for j, am in enumerate(re.finditer(r"el(\d+): (\w+)", sm.group(2))):
            if int(am.group(1)) != j or am.group(2) not in tname:
                raise DescError("insert signature arguments: %r" % sig)
            cols.append(tname[am.group(2)])
        rels.append({"name": sm.group(1), "cols": cols, "arity": len(cols), "func": ("define_" + sm.group(1)) in fns,
                     "indices": []})
    rname = {r["name"]: i for i, r in enumerate(rels)}

    # ---- struct fields
    fields, efields = [], []
    seen_type_fields = set()
    e = Eater(struct_body, "struct %s" % theory)
    while not e.done():
        fm = e.eat(r"(\w+): PrefixTree(\d+),")
        if fm:
            nm = FIELD_RE.match(fm.group(1))
            if not nm:
                raise DescError("index field name %r" % fm.group(1))
            f = {"name": fm.group(1), "age": nm.group("age"), "order": _nums(nm.group("ord")),
                 "diag": _nums(nm.group("eqs")) if nm.group("eqs") is not None else None, "ptarity": int(fm.group(2))}
            who = nm.group("rel")
            if who in rname and who in tsnake:
                raise DescError("field %s: %s is both a relation and a type" % (f["name"], who))
            if who in rname:
                r = rels[rname[who]]
                f.update(kind="index", rel=rname[who])
                if f["diag"] is not None and len(f["diag"]) != r["arity"]:
                    raise DescError("field %s: diagonal length != arity" % f["name"])
                want = len(f["order"])
                nrep = len([i for i, x in enumerate(f["diag"]) if x == i]) if f["diag"] is not None else r["arity"]
                if f["ptarity"] != want or want != nrep:
                    raise DescError("field %s: PrefixTree%d but order has %d columns and %d stored columns" % (
                        f["name"], f["ptarity"], want, nrep))
                r["indices"].append(f["name"])
            elif who in tsnake:
                if f["diag"] is not None or f["order"] != [0] or f["ptarity"] != 1:
                    raise DescError("type set field %s has an unexpected shape" % f["name"])
                f.update(kind="typeset", type=tsnake[who])
                types[tsnake[who]][f["age"]] = f["name"]
            else:
                raise DescError("index field %s belongs to no relation or type" % f["name"])
            fields.append(f)
            continue
        fm = e.eat(r"(\w+)_element_index: BTreeMap<u32, Vec<\[u32; (\d+)\]>>,")
        if fm:
            cands = [(r, t) for r in rels for t in types if fm.group(1) == "%s_%s" % (r["name"], t["snake"])]
            if len(cands) != 1:
                raise DescError("element index %s: %d candidate (relation, type) pairs" % (fm.group(1), len(cands)))
            r, t = cands[0]
            if int(fm.group(2)) != r["arity"] or tsnake[t["snake"]] not in r["cols"]:
                raise DescError("element index %s: row size / type does not fit the relation" % fm.group(1))
            efields.append({"name": fm.group(1) + "_element_index", "rel": rname[r["name"]], "type": tsnake[t["snake"]]})
            continue
        fm = e.eat(r"(\w+)_equalities: Unification<(\w+)>,") or e.eat(r"(\w+)_weights: Vec<usize>,") or \
            e.eat(r"(\w+)_uprooted: Vec<(\w+)>,")
        if fm:
            if fm.group(1) not in tsnake:
                raise DescError("type field of unknown type: %r" % fm.group(0))
            seen_type_fields.add(fm.group(0).split(":")[0])
            continue
        if e.eat(r"empty_join_is_dirty: bool,"):
            continue
        e.finish()
    for t in types:
        for suffix in ("equalities", "weights", "uprooted"):
            if "%s_%s" % (t["snake"], suffix) not in seen_type_fields:
                raise DescError("type %s lacks field %s" % (t["name"], suffix))
        if "new" not in t or "old" not in t:
            raise DescError("type %s lacks a type set" % t["name"])
    fidx = {f["name"]: f for f in fields}
    for r in rels:
        for c in set(r["cols"]):
            if not any(ef["rel"] == rname[r["name"]] and ef["type"] == c for ef in efields):
                raise DescError("relation %s has no element index for type %s" % (r["name"], types[c]["name"]))

    def fnum(ri, fname, where):
        r = rels[ri]
        if fname not in fidx or fidx[fname].get("kind") != "index" or fidx[fname]["rel"] != ri:
            raise DescError("%s: field %s is not an index field of relation %s" % (where, fname, r["name"]))
        return r["indices"].index(fname)

    def wr_list(eater, ri, verb, where, stop=None):
        """Sequence of `self.F.<verb>([..]);` and `if <guard> { self.F.<verb>([..]); }` (optionally followed by `;`)."""
        out = []
        while True:
            mm = eater.eat(r"self\.(\w+)\.%s\(%s\);" % (verb, ARGS))
            if mm:
                out.append((fnum(ri, mm.group(1), where), ["true"], _args(mm.group(2))))
                continue
            mm = eater.eat(r"if ((?:el\d+ == el\d+)(?: (?:&&|\|\|) el\d+ == el\d+)*) \{ self\.(\w+)\.%s\(%s\); \};?" % (verb, ARGS))
            if mm:
                out.append((fnum(ri, mm.group(2), where), parse_guard(mm.group(1), where), _args(mm.group(3))))
                continue
            return out

    used = set()

    def take(name):
        if name not in fns:
            raise DescError("fn %s missing" % name)
        used.add(name)
        return fns[name]

    # ---- insert_<rel>
    for ri, r in enumerate(rels):
        n = r["arity"]
        where = "insert_%s" % r["name"]
        e = Eater(take(where)[1], where)
        for j, c in enumerate(r["cols"]):
            e.expect(r"let el%d: u32 = self\.root_%s\(el%d\)\.0;" % (j, types[c]["snake"], j), "rooting of argument %d" % j)
        r["contains"] = []
        while True:
            mm = e.eat(r"if \(&self\.(\w+)\)\.contains\(%s\) \{ return; \}" % ARGS)
            if not mm:
                break
            r["contains"].append((fnum(ri, mm.group(1), where), _args(mm.group(2))))
        r["ins"] = wr_list(e, ri, "insert", where)
        r["epush"] = []
        while True:
            mm = e.eat(r"if true ((?:&& el\d+ != el\d+ ?)*)\{ self\.(\w+)\.entry\(el(\d+)\)\.or_default\(\)\.push\(%s\); \}" % ARGS)
            if not mm:
                break
            ef = [x for x in efields if x["name"] == mm.group(2) and x["rel"] == ri]
            if not ef:
                raise DescError("%s: push into unknown element index %s" % (where, mm.group(2)))
            col = int(mm.group(3))
            neq = []
            for nm in re.finditer(r"&& el(\d+) != el(\d+)", mm.group(1)):
                if int(nm.group(1)) != col:
                    raise DescError("%s: push guard compares a different column" % where)
                neq.append(int(nm.group(2)))
            if _args(mm.group(4)) != list(range(n)):
                raise DescError("%s: pushed row is not [el0, .., el%d]" % (where, n - 1))
            r["epush"].append((col, neq, ef[0]["type"]))
        r["weights"] = []
        for j in range(n):
            mm = e.eat(r"let weight%d: &mut usize = &mut self\.(\w+)_weights\[usize::try_from\(el%d\)\.unwrap\(\)\]; "
                       r"\*weight%d = weight%d\.saturating_add\((\w+)_WEIGHT\);" % (j, j, j, j))
            if not mm or tsnake.get(mm.group(1)) != r["cols"][j]:
                raise DescError("%s: weight update of column %d" % (where, j))
            r["weights"].append(j)
        e.finish()

    # ---- canonicalize
    where = "canonicalize"
    body = take(where)[1]
    parts = re.split(r"@CANON (\w+);", body)
    if _strip(parts[0]) != "":
        raise DescError("canonicalize: text before the first relation block")
    blocks = {parts[i]: parts[i + 1] for i in range(1, len(parts) - 1, 2)}
    names_in_order = [parts[i] for i in range(1, len(parts) - 1, 2)]
    if names_in_order != [r["name"] for r in rels]:
        raise DescError("canonicalize: relation blocks %s do not match relations %s" % (names_in_order, [r["name"] for r in rels]))
    for ri, r in enumerate(rels):
        n = r["arity"]
        w = "canonicalize/%s" % r["name"]
        blk = blocks[r["name"]]
        last = ri == len(rels) - 1
        e = Eater(blk, w)
        e.expect(r"let mut non_canonical_rows: Vec<Vec<\[u32; %d\]>> = Vec::new\(\);" % n)
        r["src_types"] = []
        while True:
            mm = e.eat(r"for el in self\.(\w+)_uprooted\.iter\(\)\.copied\(\) \{ if let Some\(rows\) = self\.(\w+)\.remove\(&el\.0\) "
                       r"\{ non_canonical_rows\.push\(rows\); \} \}")
            if not mm:
                break
            ef = [x for x in efields if x["name"] == mm.group(2) and x["rel"] == ri]
            if not ef or mm.group(1) not in tsnake or ef[0]["type"] != tsnake[mm.group(1)]:
                raise DescError("%s: drains %s for uprooted %s" % (w, mm.group(2), mm.group(1)))
            r["src_types"].append(ef[0]["type"])
        mm = e.expect(r"for %s in non_canonical_rows\.into_iter\(\)\.flatten\(\) \{" % ARGS)
        if _args(mm.group(1)) != list(range(n)):
            raise DescError("%s: row pattern is not the identity" % w)
        mm = e.expect(r"let was_in_indices = if self\.(\w+)\.remove\(%s\) \{" % ARGS)
        r["prim_new"] = (fnum(ri, mm.group(1), w), _args(mm.group(2)))
        r["rm_new"] = wr_list(e, ri, "remove", w)
        mm = e.expect(r"true \} else if self\.(\w+)\.remove\(%s\) \{" % ARGS)
        r["prim_old"] = (fnum(ri, mm.group(1), w), _args(mm.group(2)))
        r["rm_old"] = wr_list(e, ri, "remove", w)
        e.expect(r"true \} else \{ false \};")
        e.expect(r"if !was_in_indices \{ continue; \}")
        for j in range(n):
            mm = e.eat(r"let weight%d: &mut usize = &mut self\.(\w+)_weights\[usize::try_from\(el%d\)\.unwrap\(\)\]; "
                       r"\*weight%d = weight%d\.saturating_sub\((\w+)_WEIGHT\);" % (j, j, j, j))
            if not mm or tsnake.get(mm.group(1)) != r["cols"][j]:
                raise DescError("%s: weight update of column %d" % (w, j))
        e.expect(r"self\.insert_%s\(%s\); \}" % (r["name"], ",".join(r"%s\(el%d\)" % (types[c]["name"], j) for j, c in enumerate(r["cols"]))))
        if last:
            for t in types:
                e.expect(r"self\.%s_uprooted\.clear\(\);" % t["snake"])
        e.finish()
    if not rels:
        e = Eater(body, where)
        for t in types:
            e.expect(r"self\.%s_uprooted\.clear\(\);" % t["snake"])
        e.finish()

    # ---- move_new_to_old
    where = "move_new_to_old"
    e = Eater(take(where)[1], where)
    e.expect(r"self\.empty_join_is_dirty = false;")
    for ri, r in enumerate(rels):
        mm = e.expect(r"for %s in self\.(\w+)\.iter\(\) \{" % ARGS)
        r["mv_iter"] = (fnum(ri, mm.group(2), where), _args(mm.group(1)))
        fills = []
        while True:
            mm = e.eat(r"self\.(\w+)\.insert\(%s\);" % ARGS)
            if mm:
                fills.append((fnum(ri, mm.group(1), where), ["true"], _args(mm.group(2))))
                continue
            mm = e.eat(r"if ((?:el\d+ == el\d+)(?: (?:&&|\|\|) el\d+ == el\d+)*) \{ self\.(\w+)\.insert\(%s\); \}" % ARGS)
            if mm:
                fills.append((fnum(ri, mm.group(2), where), parse_guard(mm.group(1), where), _args(mm.group(3))))
                continue
            break
        e.expect(r"\}")
        r["mv_fill"] = fills
        r["mv_clear"] = []
        while True:
            mm = e.eat(r"self\.(\w+)\.clear\(\);")
            if not mm:
                break
            if mm.group(1) in fidx and fidx[mm.group(1)]["kind"] == "index" and fidx[mm.group(1)]["rel"] == ri:
                r["mv_clear"].append(fnum(ri, mm.group(1), where))
            else:
                raise DescError("%s: clears %s in the block of relation %s" % (where, mm.group(1), r["name"]))
    for t in types:
        e.expect(r"for r in self\.%s\.iter\(\) \{ self\.%s\.insert\(r\); \} self\.%s\.clear\(\);" % (t["new"], t["old"], t["new"]))
    e.finish()

    # ---- is_dirty
    where = "is_dirty"
    e = Eater(take(where)[1], where)
    e.expect(r"self\.empty_join_is_dirty")
    for ri, r in enumerate(rels):
        mm = e.expect(r"\|\| !self\.(\w+)\.is_empty\(\)")
        r["dirty"] = fnum(ri, mm.group(1), where)
    for t in types:
        e.expect(r"\|\| !self\.%s\.is_empty\(\)" % t["new"])
    for t in types:
        e.expect(r"\|\| !self\.%s_uprooted\.is_empty\(\)" % t["snake"])
    e.finish()

    # ---- queries
    for ri, r in enumerate(rels):
        n = r["arity"]
        T = [types[c] for c in r["cols"]]
        r["q_contains"], r["q_eval"], r["q_iter"] = [], [], []
        if not r["func"]:
            where = r["name"]
            sig, body = take(where)
            want = "pub fn %s(&self%s) -> bool" % (r["name"], "".join(", mut arg%d: %s" % (j, t["name"]) for j, t in enumerate(T)))
            if sig != want:
                raise DescError("%s: signature %r" % (where, sig))
            e = Eater(body, where)
            for j, t in enumerate(T):
                e.expect(r"arg%d = self\.root_%s\(arg%d\);" % (j, t["snake"], j))
            e.expect(r"false")
            while True:
                mm = e.eat(r"\|\| \(&self\.(\w+)\)\.contains\(\[((?:arg\d+\.0(?:, )?)*)\]\)")
                if not mm:
                    break
                r["q_contains"].append((fnum(ri, mm.group(1), where), [int(x) for x in re.findall(r"arg(\d+)\.0", mm.group(2))]))
            e.finish()
        else:
            where = r["name"]
            sig, body = take(where)
            want = "pub fn %s(&self, %s) -> Option<%s>" % (r["name"], "".join("mut arg%d: %s, " % (j, t["name"]) for j, t in enumerate(T[:-1])), T[-1]["name"])
            if sig != want:
                raise DescError("%s: signature %r, expected %r" % (where, sig, want))
            e = Eater(body, where)
            for j, t in enumerate(T[:-1]):
                e.expect(r"arg%d = self\.root_%s\(arg%d\);" % (j, t["snake"], j))
            e.expect(r"let result: Option<u32> = None")
            while True:
                mm = e.eat(r"\.or_else\(move \|\| -> Option<u32> \{ let set = \(&self\.(\w+)\); ((?:let set = set\.get\(arg\d+\.0\)\?; )*)"
                           r"let \[result\] = set\.iter\(\)\.next\(\)\?; Some\(result\) \}\)")
                if not mm:
                    break
                r["q_eval"].append((fnum(ri, mm.group(1), where), [int(x) for x in re.findall(r"get\(arg(\d+)\.0\)", mm.group(2))]))
            e.expect(r"; result\.map\(\|x\| x\.into\(\)\)")
            e.finish()
            # define_<f>
            where = "define_%s" % r["name"]
            e = Eater(take(where)[1], where)
            a = ", ".join("el%d" % j for j in range(n - 1))
            e.expect(re.escape("match self.%s(%s) { Some(result) => result, None => { let el%d = self.new_%s_internal(); self.insert_%s(%s); el%d } }" % (
                r["name"], a, n - 1, T[-1]["snake"], r["name"], ", ".join("el%d" % j for j in range(n)), n - 1)))
            e.finish()
        if n > 0:
            where = "iter_%s" % r["name"]
            e = Eater(take(where)[1], where)
            k = 0
            while True:
                mm = e.eat(r"let index_it%d = \(&self\.(\w+)\) \.iter\(\) \.map\(\|\[((?:arg\d+,?)*)\]\| \{ (.*?) \}\);" % k)
                if not mm:
                    break
                pat = [int(x) for x in re.findall(r"arg(\d+)", mm.group(2))]
                inner = ",".join("%s::from(arg%d)" % (t["name"], j) for j, t in enumerate(T))
                if mm.group(3) != (inner if n == 1 else "(%s)" % inner):
                    raise DescError("%s: yields %r" % (where, mm.group(3)))
                r["q_iter"].append((fnum(ri, mm.group(1), where), pat))
                k += 1
            e.expect(re.escape("[].into_iter()" + "".join(".chain(index_it%d)" % j for j in range(k))))
            e.finish()
        else:
            # a nullary predicate has no iterator; p() is the only reader
            r["q_iter"] = [(k, []) for (k, _) in r["q_contains"]]

    # ---- per type: iter_, root_, are_equal_, new_*_internal, new_, equate_ (literal templates)
    for ti, t in enumerate(types):
        s, N = t["snake"], t["name"]
        tmpl = {
            "iter_%s" % s: "[].into_iter() .chain(self.%s.iter()) .chain(self.%s.iter()) .map(|[el]| %s::from(el))" % (t["new"], t["old"], N),
            "root_%s" % s: "if el.0 as usize >= self.%s_equalities.len() { el } else { self.%s_equalities.root_const(el) }" % (s, s),
            "are_equal_%s" % s: "self.root_%s(lhs) == self.root_%s(rhs)" % (s, s),
            "new_%s_internal" % s: ("let old_len = self.%s_equalities.len(); self.%s_equalities.increase_size_to(old_len + 1); "
                                    "let el = u32::try_from(old_len).unwrap(); self.%s.insert([el]); assert!(self.%s_weights.len() == old_len); "
                                    "self.%s_weights.push(0); %s::from(el)") % (s, s, t["new"], s, s, N),
            "new_%s" % s: "self.new_%s_internal()" % s,
            "equate_%s" % s: ("lhs = self.%s_equalities.root(lhs); rhs = self.%s_equalities.root(rhs); if lhs == rhs { return; } "
                              "let lhs_weight = self.%s_weights[lhs.0 as usize]; let rhs_weight = self.%s_weights[rhs.0 as usize]; "
                              "let (root, child) = if lhs_weight >= rhs_weight { (lhs, rhs) } else { (rhs, lhs) }; "
                              "self.%s_equalities.union_roots_into(child, root); self.%s.remove([child.0]); self.%s.remove([child.0]); "
                              "self.%s_uprooted.push(child);") % (s, s, s, s, s, t["new"], t["old"], s),
        }
        for fn, want in tmpl.items():
            got = take(fn)[1]
            if re.sub(r"\s+", "", got) != re.sub(r"\s+", "", want):
                raise DescError("fn %s does not match its template:\n got  %r\n want %r" % (fn, got, want))

    # ---- close / close_until / new / recompute_model_indices
    if re.sub(r"\s+", "", take("close")[1]) != "self.close_until(|_:&Self|false);":
        raise DescError("close(): %r" % fns["close"][1])
    if _strip(take("recompute_model_indices")[1]) != "":
        raise DescError("recompute_model_indices is not empty (model types are outside this translator)")
    cu = take("close_until")[1]
    # strip the env construction + rule calls: `let env = XEnv { .. }; name(env);`
    cu2 = re.sub(r"let env = \w+ \{(?:[^{}])*\}; \w+\(env\);", "", cu)
    cu2 = re.sub(r"\s+", " ", cu2).strip()
    want_cu = ("self.canonicalize(); self.recompute_model_indices(); if condition(self) { return true; } "
               "let mut delta = ModelDelta::new(); loop { self.move_new_to_old(); delta.apply_equalities(self); self.canonicalize(); "
               "delta.apply_tuples(self); self.recompute_model_indices(); if condition(self) { delta.apply_func_defs(self); return true; } "
               "if !self.is_dirty() { delta.apply_func_defs (self); if !self.is_dirty() { return false; } } }")
    if cu2 != want_cu:
        raise DescError("close_until does not match its template:\n got  %r\n want %r" % (cu2, want_cu))
    for em in re.finditer(r"let env = \w+ \{((?:[^{}])*)\};", cu):
        for part in em.group(1).split(","):
            part = part.strip()
            if part == "" or part == "phantom: std::marker::PhantomData":
                continue
            if not re.fullmatch(r"\w+: &self\.\w+", part) and not re.fullmatch(r"\w+: &mut delta\.\w+", part):
                raise DescError("close_until: rule environment entry %r" % part)
    nb = take("new")[1]
    e = Eater(nb, "new")
    e.expect(r"Self \{")
    inits = set()
    while True:
        mm = e.eat(r"(\w+): (Unification::new\(\)|Vec::new\(\)|PrefixTree\d+::new\(\)|BTreeMap::new\(\)|true),")
        if not mm:
            break
        inits.add(mm.group(1))
    e.expect(r"\}")
    e.finish()
    for f in fields + efields:
        if f["name"] not in inits:
            raise DescError("new(): field %s is not initialised empty" % f["name"])

    # ---- nothing else in the impl, and nobody else writes the fields
    unknown = [f for f in order_of_fns if f not in used]
    if unknown:
        raise DescError("unrecognised functions in impl %s: %s" % (theory, unknown))
    writers = {"canonicalize", "move_new_to_old"} | {"insert_%s" % r["name"] for r in rels} | \
              {"new_%s_internal" % t["snake"] for t in types} | {"equate_%s" % t["snake"] for t in types}
    allnames = "|".join(re.escape(f["name"]) for f in fields + efields)
    if allnames:
        mut = re.compile(r"(?:&mut self\.(?:%s)\b)|(?:self\.(?:%s)\s*\.\s*(?:insert|remove|clear|entry|push|retain|get_mut|insert_restriction|remove_restriction|append)\b)" % (allnames, allnames))
        for fn in order_of_fns:
            if fn in writers:
                continue
            if mut.search(fns[fn][1]):
                raise DescError("fn %s writes an index field" % fn)
        # rule modules and ModelDelta: only shared references to index fields
        head = text[:text.index("/// A model of the `%s` theory." % theory)]
        if re.search(r"&'a mut PrefixTree|&mut PrefixTree", head):
            raise DescError("a rule environment holds a mutable reference to an index")

    # every index field of a relation must be numbered
    for f in fields:
        if f["kind"] == "index":
            f["num"] = rels[f["rel"]]["indices"].index(f["name"])
    return {"theory": theory, "types": types, "fields": fields, "efields": efields, "rels": rels}


# ------------------------------------------------------------------------------------------------ Coq printing

def _l(xs, f=str):
    return "[" + "; ".join(f(x) for x in xs) + "]"


def guard_coq(g):
    k = g[0]
    if k == "true":
        return "GTrue"
    if k == "eq":
        return "(GEq %d %d)" % (g[1], g[2])
    if k == "not":
        return "(GNot %s)" % guard_coq(g[1])
    return "(%s %s %s)" % ("GAnd" if k == "and" else "GOr", guard_coq(g[1]), guard_coq(g[2]))


def idx_coq(f):
    return "{| i_age := %s; i_order := %s; i_diag := %s |}" % (
        "New" if f["age"] == "new" else "Old", _l(f["order"]), "None" if f["diag"] is None else "Some %s" % _l(f["diag"]))


def rel_desc_coq(desc, ri):
    r = desc["rels"][ri]
    fidx = {f["name"]: f for f in desc["fields"]}

    def pr(p):
        return "(%d, %s)" % (p[0], _l(p[1]))

    def wr(w):
        return "{| w_field := %d; w_guard := %s; w_args := %s |}" % (w[0], guard_coq(w[1]), _l(w[2]))

    def pu(p):
        return "{| p_col := %d; p_neq := %s; p_type := %d |}" % (p[0], _l(p[1]), p[2])
    return ("{| d_arity := %d; d_col_types := %s; d_indices := %s; d_contains := %s; d_ins := %s; d_epush := %s; "
            "d_src_types := %s; d_prim_new := %s; d_rm_new := %s; d_prim_old := %s; d_rm_old := %s; d_mv_iter := %s; "
            "d_mv_fill := %s; d_mv_clear := %s; d_dirty := %d; d_q_contains := %s; d_q_iter := %s; d_q_eval := %s |}") % (
        r["arity"], _l(r["cols"]), _l([fidx[n] for n in r["indices"]], idx_coq), _l(r["contains"], pr), _l(r["ins"], wr),
        _l(r["epush"], pu), _l(r["src_types"]), pr(r["prim_new"]), _l(r["rm_new"], wr), pr(r["prim_old"]), _l(r["rm_old"], wr),
        pr(r["mv_iter"]), _l(r["mv_fill"], wr), _l(r["mv_clear"]), r["dirty"], _l(r["q_contains"], pr), _l(r["q_iter"], pr),
        _l(r["q_eval"], pr))


def descs_coq(desc):
    return _l(range(len(desc["rels"])), lambda i: rel_desc_coq(desc, i))


# ------------------------------------------------------------------------------------------------ inspect.rs

def inspect_rs(desc):
    """Rust source for `impl <Theory> { pub fn verif_inspect(&self) -> String }` (one line, see parse_inspect)."""
    L = []
    w = L.append
    w("impl %s {" % desc["theory"])
    w("    #[allow(dead_code)]")
    w("    pub fn verif_inspect(&self) -> String {")
    w("        let mut s = String::new();")
    w("        fn tup(t: &[u32]) -> String { if t.is_empty() { String::from(\"_\") } else { t.iter().map(|x| x.to_string()).collect::<Vec<_>>().join(\",\") } }")
    for f in desc["fields"]:
        w("        s.push_str(\" I:%s=\");" % f["name"])
        w("        s.push_str(&self.%s.iter().map(|t| tup(&t)).collect::<Vec<_>>().join(\"+\"));" % f["name"])
    for f in desc["efields"]:
        w("        s.push_str(\" E:%s=\");" % f["name"])
        w("        s.push_str(&self.%s.iter().map(|(k, rows)| format!(\"{}>{}\", k, rows.iter().map(|t| tup(t)).collect::<Vec<_>>().join(\"+\"))).collect::<Vec<_>>().join(\"/\"));" % f["name"])
    for t in desc["types"]:
        s = t["snake"]
        w("        s.push_str(\" R:%s=\");" % s)
        w("        s.push_str(&(0..self.%s_equalities.len()).map(|i| self.root_%s(%s(i as u32)).0.to_string()).collect::<Vec<_>>().join(\",\"));" % (s, s, t["name"]))
        w("        s.push_str(\" U:%s=\");" % s)
        w("        s.push_str(&self.%s_uprooted.iter().map(|e| e.0.to_string()).collect::<Vec<_>>().join(\",\"));" % s)
        w("        s.push_str(\" W:%s=\");" % s)
        w("        s.push_str(&self.%s_weights.iter().map(|e| e.to_string()).collect::<Vec<_>>().join(\",\"));" % s)
    w("        s.push_str(if self.is_dirty() { \" D=1\" } else { \" D=0\" });")
    w("        s")
    w("    }")
    w("}")
    return "\n".join(L) + "\n"


def parse_inspect(line, desc):
    """-> {"I": {field: [tuple]}, "E": {efield: [(key, [row])]}, "R": {snake: [root]}, "U": {snake: [el]}, "W": {snake: [w]}, "D": bool}
    in iteration order, raw ids."""
    assert line.startswith("X "), line[:20]
    out = {"I": {}, "E": {}, "R": {}, "U": {}, "W": {}, "D": None}

    def tup(s):
        return [] if s == "_" else [int(x) for x in s.split(",")]
    for tok in line[2:].split():
        if tok.startswith("D="):
            out["D"] = tok == "D=1"
            continue
        kind, rest = tok.split(":", 1)
        name, payload = rest.split("=", 1)
        if kind == "I":
            out["I"][name] = [tup(x) for x in payload.split("+")] if payload != "" else []
        elif kind == "E":
            ent = []
            if payload != "":
                for e in payload.split("/"):
                    k, rows = e.split(">", 1)
                    ent.append((int(k), [tup(x) for x in rows.split("+")] if rows != "" else []))
            out["E"][name] = ent
        elif kind in ("R", "U", "W"):
            out[kind][name] = [int(x) for x in payload.split(",")] if payload != "" else []
        else:
            raise ValueError("inspect token %r" % tok)
    for f in desc["fields"]:
        if f["name"] not in out["I"]:
            raise ValueError("inspect output lacks field %s" % f["name"])
    return out


def state_coq(desc, insp):
    """The dumped state as a Gallina term for Run.check_state: global ids gid = id * ntypes + type.
    -> "(rels, roots, uprooted, tnew, told)"."""
    nt = len(desc["types"])
    fidx = {f["name"]: f for f in desc["fields"]}

    def g(x, ty):
        return x * nt + ty
    rels = []
    for ri, r in enumerate(desc["rels"]):
        tabs = []
        for fn in r["indices"]:
            f = fidx[fn]
            cs = stored_cols(f["order"], f["diag"], r["arity"])
            tabs.append(_l(insp["I"][fn], lambda t: _l([g(x, r["cols"][c]) for x, c in zip(t, cs)])))
        ents = []
        for ef in desc["efields"]:
            if ef["rel"] != ri:
                continue
            for (k, rows) in insp["E"][ef["name"]]:
                ents.append("(%d, %s)" % (g(k, ef["type"]), _l(rows, lambda t: _l([g(x, c) for x, c in zip(t, r["cols"])]))))
        rels.append("(%s, %s)" % (_l(tabs), _l(ents)))
    roots, up, tnew, told = [], [], [], []
    for ti, t in enumerate(desc["types"]):
        for i, rt in enumerate(insp["R"][t["snake"]]):
            roots.append("(%d, %d)" % (g(i, ti), g(rt, ti)))
        up += [g(x, ti) for x in insp["U"][t["snake"]]]
        tnew += [g(x[0], ti) for x in insp["I"][t["new"]]]
        told += [g(x[0], ti) for x in insp["I"][t["old"]]]
    return "(%s, %s, %s, %s, %s)" % (_l(rels), _l(roots), _l(up), _l(tnew), _l(told))


if __name__ == "__main__":
    import json
    import sys
    d = parse_module(open(sys.argv[1]).read())
    if len(sys.argv) > 2 and sys.argv[2] == "coq":
        print(descs_coq(d))
    elif len(sys.argv) > 2 and sys.argv[2] == "inspect":
        print(inspect_rs(d))
    else:
        print(json.dumps(d, indent=1))
