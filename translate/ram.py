"""Translator: emitted rule modules (component mode) -> Coq terms of coq/Ram (`Ram.Model.rule_fn`).

Input: `<comp_dir>/<file>.eql/eql_<n>_<theory>_<group>.rs` as written by rust_gen/rule.rs::display_ram_module:

    #[allow(unused)] use eqlog_runtime::*;  #[allow(unused)] use std::cell::LazyCell;
    #[allow(unused)] pub struct <Group>Env<'a> { phantom: ..., <index field>: &'a PrefixTreeN, ...
                                                 <out field>: &'a mut Vec<[u32; N]>, ... }
    // rule NAME:        (flat rule, rust_gen/flat_eqlog.rs::display_flat_rule)
    // if:
    // - rel(v, ..) [new|old|all]   |  - rel[diag=0,0,2](v, ..) [age]  |  - TSet(v) [age]
    // then:
    // - rel(v, ..)  |  - T==T(a, b)  |  - fDef(v, ..)
    fn NAME(env: &mut <Group>Env) {
      <stmt>* }                      where <stmt> is one of the four RamStmt kinds (ram/ast.rs):
        let SET = env.FIELD ;                                                            DefineSet/GetIndex
        let SET = LazyCell::new(|| { SRC.get(VAR).unwrap_or_else(|| PrefixTreeN::empty()) });   DefineSet/Restrict (lazy)
        let SET = SRC.get(VAR).unwrap_or_else(|| PrefixTreeN::empty()) ;                  DefineSet/Restrict (strict)
        #[allow(unused_variables)] for (VAR, SET) in S1.iter_restrictions() .chain(S2.iter_restrictions())* { <stmt>* }
        if false || !S1.is_empty()|| !S2.is_empty() { <stmt>* }
        env.OUT.push([VAR, ..]);
    #[unsafe(no_mangle)] pub fn <symbol>(mut env: <Group>Env) { NAME(&mut env); ... }

The parser is line based and STRICT: every non-blank line of the file must be consumed by this grammar; anything
else raises RamParseError("<file>:<line>: ..."). Nothing is normalised or repaired: the AST is what the text says.

Python AST of a rule function (`parse_component_file` returns a list of these):
    {"name", "file", "line", "theory", "group", "env_struct",
     "flat": {"premise": [(rel, diag|None, [var..], age)], "conclusion": [(kind, name, [var..])]},   kind: rel|eq|def
     "ram":  [stmt..]  with stmt =
              ("def", set, lazy, ("index", field))            | ("def", set, lazy, ("restrict", src_set, var, result_arity))
              ("iter", [set..], var, loop_set, [stmt..])      | ("guard", [set..], [stmt..])  | ("push", out_field, [var..]),
     "env_fields": {"in": [(field, tree_arity)], "out": [(field, row_len)]},
     "called": number of calls from the exported main fn}
Set variable names `set<K>_<field>_r<j>` are kept as strings in the python AST; `to_coq` turns them into
`(K, id)` (K = the premise position the NAME claims, a hint that the Coq validator checks, never trusts).
"""
import os
import re

AGES = ("new", "old", "all")


class RamParseError(Exception):
    pass


FIELD_RE = re.compile(r"^(?P<rel>.+)_(?P<age>new|old)_(?:eqs_(?P<eqs>\d+(?:_\d+)*)_)?order_(?P<ord>\d+(?:_\d+)*)?$")
SET_RE = re.compile(r"^set(?P<k>\d+)_(?P<field>\w+)_r(?P<j>\d+)$")
IDENT = r"[A-Za-z_][A-Za-z_0-9]*"
PREM_RE = re.compile(r"^- (?P<rel>[^\s(\[]+)(?:\[diag=(?P<diag>\d+(?:,\d+)*)\])?\((?P<args>[^()]*)\) \[(?P<age>new|old|all)\]$")
CONC_RE = re.compile(r"^- (?P<rel>[^\s(\[]+)\((?P<args>[^()]*)\)$")


def norm_name(s):
    """Relation / type names appear as written in the comment and in snake case in field names."""
    return s.replace("_", "").lower()


def parse_field(field):
    """index field name -> dict(rel (snake), age, diag (list|None), order (list)) or None."""
    m = FIELD_RE.match(field)
    if not m:
        return None
    return {"rel": m.group("rel"), "age": m.group("age"),
            "diag": [int(x) for x in m.group("eqs").split("_")] if m.group("eqs") else None,
            "order": [int(x) for x in m.group("ord").split("_")] if m.group("ord") else []}


def parse_out_field(field):
    """out field name -> (kind, snake name) or None. kind: rel | eq | def."""
    if not field.startswith("new_"):
        return None
    body = field[4:]
    # `new_<t>_equalities` and `new_<f>_def` are decided by the suffix (rust_gen/mod.rs::display_out_set_field_name)
    if body.endswith("_equalities"):
        return ("eq", body[:-len("_equalities")])
    if body.endswith("_def"):
        return ("def", body[:-len("_def")])
    return ("rel", body)


class _Lines:
    def __init__(self, path, text):
        self.path = path
        self.lines = text.split("\n")
        self.i = 0

    def skip_blank(self):
        while self.i < len(self.lines) and self.lines[self.i].strip() == "":
            self.i += 1

    def eof(self):
        self.skip_blank()
        return self.i >= len(self.lines)

    def peek(self):
        self.skip_blank()
        if self.i >= len(self.lines):
            self.fail("unexpected end of file")
        return self.lines[self.i].strip()

    def lineno(self):
        self.skip_blank()
        return self.i + 1

    def next(self):
        s = self.peek()
        self.i += 1
        return s

    def expect(self, text):
        s = self.peek()
        if s != text:
            self.fail("expected %r, found %r" % (text, s))
        self.i += 1

    def match(self, regex, what):
        s = self.peek()
        m = re.match(regex, s)
        if not m:
            self.fail("expected %s, found %r" % (what, s))
        self.i += 1
        return m

    def fail(self, msg):
        raise RamParseError("%s:%d: %s" % (self.path, min(self.i + 1, len(self.lines)), msg))


def _args(s):
    return [a.strip() for a in s.split(",") if a.strip()]


def _parse_env_struct(L):
    L.expect("#[allow(unused)]")
    m = L.match(r"^pub struct (%s)<'a> \{$" % IDENT, "`pub struct <Group>Env<'a> {`")
    name = m.group(1)
    L.expect("phantom: std::marker::PhantomData<&'a ()>,")
    ins, outs = [], []
    while True:
        s = L.peek()
        if s == "}":
            L.next()
            break
        m = re.match(r"^(%s): &'a PrefixTree(\d+),$" % IDENT, s)
        if m:
            if outs:
                L.fail("index field after an out field in the env struct")
            ins.append((m.group(1), int(m.group(2))))
            L.next()
            continue
        m = re.match(r"^(%s): &'a mut Vec<\[u32; (\d+)\]>,$" % IDENT, s)
        if m:
            outs.append((m.group(1), int(m.group(2))))
            L.next()
            continue
        L.fail("unrecognised env struct member %r" % s)
    return name, ins, outs


def _parse_comment(L):
    m = L.match(r"^// rule (%s):$" % IDENT, "`// rule NAME:`")
    name = m.group(1)
    L.expect("// if:")
    premise, conclusion = [], []
    while True:
        s = L.peek()
        if s == "// then:":
            L.next()
            break
        if s == "//":          # an empty premise prints as one empty comment line
            L.next()
            continue
        if not s.startswith("// "):
            L.fail("flat-rule comment of %s ends without `// then:`" % name)
        m = PREM_RE.match(s[3:])
        if not m:
            L.fail("unrecognised premise atom %r" % s)
        premise.append((m.group("rel"), [int(x) for x in m.group("diag").split(",")] if m.group("diag") else None,
                        _args(m.group("args")), m.group("age")))
        L.next()
    while True:
        s = L.peek()
        if s == "//":
            L.next()
            continue
        if not s.startswith("// "):
            break
        m = CONC_RE.match(s[3:])
        if not m:
            L.fail("unrecognised conclusion atom %r" % s)
        rel = m.group("rel")
        args = _args(m.group("args"))
        if "==" in rel:
            a, b = rel.split("==", 1)
            if a != b:
                L.fail("equality conclusion between different types %r" % rel)
            conclusion.append(("eq", a, args))
        elif rel.endswith("Def"):
            conclusion.append(("def", rel[:-3], args))
        else:
            conclusion.append(("rel", rel, args))
        L.next()
    return name, premise, conclusion


def _set(L, s):
    if not SET_RE.match(s):
        L.fail("not a set variable name: %r" % s)
    return s


RESTRICT_LINE = re.compile(r"^(%s)\.get\((%s)\)\.unwrap_or_else\(\|\| PrefixTree(\d+)::empty\(\)\)$" % (IDENT, IDENT))


def _parse_block(L):
    """Statements up to (not including) the closing `}` of the enclosing block."""
    out = []
    while True:
        s = L.peek()
        if s == "}":
            return out
        m = re.match(r"^let (%s) =$" % IDENT, s)
        if m:
            L.next()
            target = _set(L, m.group(1))
            s2 = L.next()
            if s2 == "LazyCell::new(|| {":
                m3 = L.match(RESTRICT_LINE, "`SET.get(VAR).unwrap_or_else(|| PrefixTreeN::empty())`")
                L.expect("});")
                out.append(("def", target, True, ("restrict", _set(L, m3.group(1)), m3.group(2), int(m3.group(3)))))
                continue
            m2 = re.match(r"^env\.(%s)$" % IDENT, s2)
            if m2:
                L.expect(";")
                out.append(("def", target, False, ("index", m2.group(1))))
                continue
            m3 = RESTRICT_LINE.match(s2)
            if m3:
                L.expect(";")
                out.append(("def", target, False, ("restrict", _set(L, m3.group(1)), m3.group(2), int(m3.group(3)))))
                continue
            L.i -= 1
            L.fail("unrecognised set expression %r" % s2)
        if s == "#[allow(unused_variables)]":
            L.next()
            L.expect("for")
            m = L.match(r"^\((%s), (%s)\)$" % (IDENT, IDENT), "`(VAR, SET)`")
            var, loop_set = m.group(1), _set(L, m.group(2))
            L.expect("in")
            m = L.match(r"^(%s)\.iter_restrictions\(\)$" % IDENT, "`SET.iter_restrictions()`")
            sets = [_set(L, m.group(1))]
            while True:
                s2 = L.peek()
                m = re.match(r"^\.chain\((%s)\.iter_restrictions\(\)\)$" % IDENT, s2)
                if not m:
                    break
                sets.append(_set(L, m.group(1)))
                L.next()
            L.expect("{")
            body = _parse_block(L)
            L.expect("}")
            out.append(("iter", sets, var, loop_set, body))
            continue
        m = re.match(r"^if false((?: ?\|\| !%s\.is_empty\(\))*) \{$" % IDENT, s)
        if m:
            L.next()
            sets = [_set(L, x) for x in re.findall(r"!(%s)\.is_empty\(\)" % IDENT, m.group(1))]
            body = _parse_block(L)
            L.expect("}")
            out.append(("guard", sets, body))
            continue
        m = re.match(r"^env\.(%s)\.push\(\[([^\[\]]*)\]\);$" % IDENT, s)
        if m:
            L.next()
            args = _args(m.group(2))
            for a in args:
                if not re.match(r"^%s$" % IDENT, a):
                    L.fail("push argument %r is not a variable" % a)
            out.append(("push", m.group(1), args))
            continue
        L.fail("unrecognised statement %r" % s)


def parse_component_text(path, text):
    base = os.path.basename(path)
    m = re.match(r"^eql_(\d+)_(.+)\.rs$", base)
    if not m:
        raise RamParseError("%s:1: unexpected component file name" % path)
    n = int(m.group(1))
    theory, group = m.group(2)[:n], m.group(2)[n + 1:]
    if m.group(2)[n:n + 1] != "_" or not group:
        raise RamParseError("%s:1: file name does not have the form eql_<len>_<theory>_<group>.rs" % path)
    L = _Lines(path, text)
    L.expect("#[allow(unused)]")
    L.expect("use eqlog_runtime::*;")
    L.expect("#[allow(unused)]")
    L.expect("use std::cell::LazyCell;")
    env_name, ins, outs = _parse_env_struct(L)
    fns = []
    while True:
        s = L.peek()
        if s == "#[unsafe(no_mangle)]":
            break
        line = L.lineno()
        name, premise, conclusion = _parse_comment(L)
        m = L.match(r"^fn (%s)\(env: &mut (%s)\) \{$" % (IDENT, IDENT), "`fn NAME(env: &mut <Group>Env) {`")
        if m.group(1) != name:
            L.fail("comment names rule %s but the function is %s" % (name, m.group(1)))
        if m.group(2) != env_name:
            L.fail("rule fn %s takes %s, the module declares %s" % (name, m.group(2), env_name))
        body = _parse_block(L)
        L.expect("}")
        fns.append({"name": name, "file": path, "line": line, "theory": theory, "group": group, "env_struct": env_name,
                    "flat": {"premise": premise, "conclusion": conclusion}, "ram": body,
                    "env_fields": {"in": ins, "out": outs}, "called": 0})
    L.expect("#[unsafe(no_mangle)]")
    m = L.match(r"^pub fn (%s)\(mut env: (%s)\) \{$" % (IDENT, IDENT), "`pub fn <symbol>(mut env: <Group>Env) {`")
    if m.group(2) != env_name:
        L.fail("main fn takes %s, the module declares %s" % (m.group(2), env_name))
    if norm_name(m.group(1)) != norm_name(base[:-3]):
        L.fail("exported fn %s does not carry the file's symbol name %s" % (m.group(1), base[:-3]))
    by_name = {}
    for f in fns:
        if f["name"] in by_name:
            L.fail("two rule functions are called %s" % f["name"])
        by_name[f["name"]] = f
    while True:
        s = L.peek()
        if s == "}":
            L.next()
            break
        m = re.match(r"^(%s)\(&mut env\);$" % IDENT, s)
        if not m:
            L.fail("unrecognised statement in the main fn: %r" % s)
        if m.group(1) not in by_name:
            L.fail("main fn calls %s, which is not a rule function of this file" % m.group(1))
        by_name[m.group(1)]["called"] += 1
        L.next()
    if not L.eof():
        L.fail("text after the main fn: %r" % L.peek())
    return fns


def parse_component_file(path):
    """-> list of rule_fn dicts (see module docstring). Raises RamParseError(file:line: ...) on anything unknown."""
    with open(path, encoding="utf-8") as f:
        return parse_component_text(path, f.read())


def component_files(comp_dir):
    """All rule-module sources below a component output directory (`<comp_dir>/<file>.eql/eql_*.rs`)."""
    out = []
    for root, _dirs, files in os.walk(comp_dir):
        for fn in sorted(files):
            if fn.startswith("eql_") and fn.endswith(".rs"):
                out.append(os.path.join(root, fn))
    return sorted(out)


# ------------------------------------------------------------------------------------------------ Coq printing

class Interner:
    """Numbers relation / type names of one theory. Keys are normalised names (comment spelling and snake-case
    field spelling of one relation agree after removing `_` and lower-casing). Relations and type sets live in
    different constructors (FRel / FTySet) and different number spaces."""

    def __init__(self):
        self.rel = {}
        self.ty = {}
        self.spelling = {}

    def rel_id(self, name):
        k = norm_name(name)
        return self.rel.setdefault(k, len(self.rel))

    def ty_id(self, name):
        k = norm_name(name)
        return self.ty.setdefault(k, len(self.ty))


def coq_nat_list(xs):
    return "[" + "; ".join("%d" % x for x in xs) + "]%nat"


def coq_N_list(xs):
    return "[" + "; ".join("%d" % x for x in xs) + "]%N"


def _frel(kind, ident):
    return "(FRel %d%%N)" % ident if kind == "rel" else "(FTySet %d%%N)" % ident


def _looks_like_type_set(rel, diag, nargs):
    return rel.endswith("Set") and len(rel) > 3 and rel[0].isupper() and diag is None and nargs == 1


def atom_kinds(fn):
    """Per premise position "ty" or "rel". The comment prints the type set of T as `TSet(x)`; an (enum constructor)
    relation may also be called `FooSet`. Decided by the NAME of the env field that the set variables of that
    position read: `<snake(T)>_<age>_order_0` for the type set, `<snake(TSet)>_...` for a relation. If the code reads
    neither, the comment spelling decides (and the validator will see a foreign relation)."""
    fields = {}

    def walk(stmts):
        for st in stmts:
            if st[0] == "def" and st[3][0] == "index":
                fields.setdefault(int(SET_RE.match(st[1]).group("k")), []).append(st[3][1])
            elif st[0] == "iter":
                walk(st[4])
            elif st[0] == "guard":
                walk(st[2])
    walk(fn["ram"])
    out = []
    for k, (rel, diag, args, _age) in enumerate(fn["flat"]["premise"]):
        kind = "rel"
        if _looks_like_type_set(rel, diag, len(args)):
            kind = "ty"
            for f in fields.get(k, []):
                p = parse_field(f)
                if p and norm_name(p["rel"]) == norm_name(rel) and norm_name(p["rel"]) != norm_name(rel[:-3]):
                    kind = "rel"
        out.append(kind)
    return out


def prem_frel(kind, rel, names):
    """Comment spelling of a premise relation -> ("rel"|"ty", id). `TSet(x)` is the type set of T."""
    if kind == "ty":
        return ("ty", names.ty_id(rel[:-3]))
    return ("rel", names.rel_id(rel))


def field_index_coq(field, kind_hint, names):
    """Index field name -> Gallina `index` term, or None if the name is not an index field name. Whether the
    snake-case name denotes a relation or a type set cannot be read off the field name: `kind_hint` (from the
    premise atom the set variable claims to serve) decides the constructor, the NAME decides the number."""
    p = parse_field(field)
    if p is None:
        return None
    if kind_hint == "ty" and p["diag"] is None and p["order"] == [0]:
        fr = _frel("ty", names.ty_id(p["rel"]))
    else:
        fr = _frel("rel", names.rel_id(p["rel"]))
    return "(mkIndex %s %s %s %s)" % (fr, "INew" if p["age"] == "new" else "IOld", coq_nat_list(p["order"]),
                                     "None" if p["diag"] is None else "(Some %s)" % coq_nat_list(p["diag"]))


class ToCoq:
    def __init__(self, fn, names=None):
        self.fn = fn
        self.names = names or Interner()
        self.vars = {}
        self.sets = {}
        self.kinds = atom_kinds(fn)

    def var(self, v):
        return self.vars.setdefault(v, len(self.vars))

    def setvar(self, s):
        m = SET_RE.match(s)
        ident = self.sets.setdefault(s, len(self.sets))
        return "(%d%%nat, %d%%N)" % (int(m.group("k")), ident)

    def hint(self, s):
        k = int(SET_RE.match(s).group("k"))
        return self.kinds[k] if k < len(self.kinds) else "rel"

    def index(self, field, hint):
        t = field_index_coq(field, hint, self.names)
        if t is None:
            raise RamParseError("%s:%d: rule fn %s: `env.%s` is not an index field name" % (
                self.fn["file"], self.fn["line"], self.fn["name"], field))
        return t

    def out_rel(self, kind, name):
        if kind == "eq":
            return "(OEq %d%%N)" % self.names.ty_id(name)
        if kind == "def":
            return "(ODef %d%%N)" % self.names.rel_id(name)
        return "(ORel %d%%N)" % self.names.rel_id(name)

    def flat(self):
        prem = []
        for k, (rel, diag, args, age) in enumerate(self.fn["flat"]["premise"]):
            kind, ident = prem_frel(self.kinds[k], rel, self.names)
            prem.append("(mkAtom %s %s %s %s)" % (_frel(kind, ident), "None" if diag is None else "(Some %s)" % coq_nat_list(diag),
                                                 coq_N_list([self.var(a) for a in args]), {"new": "New", "old": "Old", "all": "All"}[age]))
        conc = ["(%s, %s)" % (self.out_rel(kind, name), coq_N_list([self.var(a) for a in args]))
                for (kind, name, args) in self.fn["flat"]["conclusion"]]
        return "(mkFlat [%s] [%s])" % ("; ".join(prem), "; ".join(conc))

    def block(self, stmts):
        if not stmts:
            return "RDone"
        st, rest = stmts[0], stmts[1:]
        if st[0] == "def":
            _, target, lazy, e = st
            if e[0] == "index":
                ex = "(GetIndex %s)" % self.index(e[1], self.hint(target))
            else:
                ex = "(Restrict %s %d%%N %d%%nat)" % (self.setvar(e[1]), self.var(e[2]), e[3])
            return "(RDef %s %s %s %s)" % (self.setvar(target), "true" if lazy else "false", ex, self.block(rest))
        if st[0] == "iter":
            _, sets, var, loop_set, body = st
            return "(RIter [%s] %d%%N %s %s %s)" % ("; ".join(self.setvar(s) for s in sets), self.var(var), self.setvar(loop_set),
                                                   self.block(body), self.block(rest))
        if st[0] == "guard":
            _, sets, body = st
            return "(RGuard [%s] %s %s)" % ("; ".join(self.setvar(s) for s in sets), self.block(body), self.block(rest))
        if st[0] == "push":
            _, field, args = st
            o = parse_out_field(field)
            if o is None:
                raise RamParseError("%s:%d: rule fn %s: `env.%s` is not an out field name" % (
                    self.fn["file"], self.fn["line"], self.fn["name"], field))
            return "(RPush %s %s %s)" % (self.out_rel(o[0], o[1]), coq_N_list([self.var(a) for a in args]), self.block(rest))
        raise ValueError(st)

    def decls(self):
        ins = []
        # the kind of an env field: a type set if some premise atom of the FILE that reads it is a type-set atom
        for (field, n) in self.fn["env_fields"]["in"]:
            hint = self.fn.get("field_kinds", {}).get(field, "rel")
            t = field_index_coq(field, hint, self.names)
            if t is None:
                raise RamParseError("%s:%d: env struct member `%s` is not an index field name" % (self.fn["file"], self.fn["line"], field))
            ins.append("(%s, %d%%nat)" % (t, n))
        outs = []
        for (field, n) in self.fn["env_fields"]["out"]:
            o = parse_out_field(field)
            if o is None:
                raise RamParseError("%s:%d: env struct member `%s` is not an out field name" % (self.fn["file"], self.fn["line"], field))
            outs.append("(%s, %d%%nat)" % (self.out_rel(o[0], o[1]), n))
        return "(mkDecls [%s] [%s])" % ("; ".join(ins), "; ".join(outs))

    def term(self):
        flat = self.flat()       # numbers the variables in comment order first
        ram = self.block(self.fn["ram"])
        return "(mkRuleFn %s %s %s)" % (self.decls(), ram, flat)


def annotate_field_kinds(fns):
    """For every env field of a file: "ty" if a GetIndex of it is bound to a set variable whose premise position is
    a type-set atom in some rule function of the file, else "rel". Conflicting uses raise."""
    kinds = {}

    def walk(fn, kind_of_pos, stmts):
        for st in stmts:
            if st[0] == "def" and st[3][0] == "index":
                k = int(SET_RE.match(st[1]).group("k"))
                kind = kind_of_pos[k] if k < len(kind_of_pos) else "rel"
                p = parse_field(st[3][1])
                if kind == "ty" and not (p and p["diag"] is None and p["order"] == [0]):
                    kind = "rel"
                old = kinds.setdefault(st[3][1], kind)
                if old != kind:
                    raise RamParseError("%s:%d: env field %s is read both as a type set and as a relation" % (fn["file"], fn["line"], st[3][1]))
            elif st[0] == "iter":
                walk(fn, kind_of_pos, st[4])
            elif st[0] == "guard":
                walk(fn, kind_of_pos, st[2])
    for fn in fns:
        walk(fn, atom_kinds(fn), fn["ram"])
    for fn in fns:
        fn["field_kinds"] = kinds


def to_coq(rule_fn, names=None):
    """Gallina term of type `Ram.Model.rule_fn` (decls, ram, flat rule). `names` (an Interner) may be shared between
    the functions of one theory so that relation numbers agree; the validator only compares numbers inside one term."""
    return ToCoq(rule_fn, names).term()


def count_stmts(stmts):
    n = {"def_index": 0, "def_index_diag": 0, "def_restrict": 0, "iter": 0, "iter_chain": 0, "guard": 0, "guard_chain": 0, "push": 0}

    def walk(ss):
        for st in ss:
            if st[0] == "def":
                n["def_index" if st[3][0] == "index" else "def_restrict"] += 1
                if st[3][0] == "index" and "_eqs_" in st[3][1]:
                    n["def_index_diag"] += 1
            elif st[0] == "iter":
                n["iter"] += 1
                if len(st[1]) > 1:
                    n["iter_chain"] += 1
                walk(st[4])
            elif st[0] == "guard":
                n["guard"] += 1
                if len(st[1]) > 1:
                    n["guard_chain"] += 1
                walk(st[2])
            else:
                n["push"] += 1
    walk(stmts)
    return n
