"""translate/fprog.py - emitted component sources of one program -> the Gallina `fprogram` of coq/Engine (plus what the
weighted engine model coq/Engine/ModelW.v needs: the per-relation weight constants and the call order of close_until).

Input   comp_dir     the component output directory (`build-driver component <in> <out> <comp> <rustc> x`), i.e. the rule
                     modules `<comp>/<theory>.eql/eql_<n>_<theory>_<group>.rs`, each rule function preceded by its flat rule
                     (`// rule NAME: // if: // - atom [age] // then: // - atom`), parsed by translate/ram.py (strict parser);
        module_text  the emitted main module `<out>/<theory>.eql.rs`: `const <REL>_WEIGHT: usize = n;` and the order in which
                     `close_until` calls the exported rule-module functions;
        sig          the signature of the SOURCE program as gen/progs.py numbers it (sig["rels"][i]["name"], sig["ntypes"],
                     type i is called progs.tname(i)).  Relation and type numbers of the result are these numbers.

Output  dict(rules=[{"name", "group", "prem": [(kind, id, [var..], age)], "conc": [("rel"|"eq"|"def", id, [var..])]}],
             arity=[(rel, ncols, is_func)], restype=[(f, type)], weights=[(rel, W)], order=[group..], nvars=.., stats={..})
        in EMISSION/CALL order: modules in the order close_until calls them, inside a module the order in which its exported
        function calls the rule functions.  A rule function that is called k times appears k times; one that is never called
        does not appear (both are reported in stats and make `problems` non-empty).

Conventions of the translation
  * `TSet(x)` (the type set of T) becomes (FTySet t); whether `FooSet` is a type set or a relation is decided by the name of
    the index field the rule function reads for that atom (ram.atom_kinds).
  * A diagonal atom `p[diag=e0,..](args)` carries one argument per representative column (e_i = i); it is expanded to the
    full column list with repeated variables (column i gets the argument of column e_i), which is how coq/Engine matches
    repeated variables.
  * Variables are numbered per rule function in order of first occurrence (premise first, then conclusion).
  * `T==T(a, b)` -> CEq a b (the type is dropped: the engine model is untyped); `fDef(args)` -> CDef f args.
Nothing is repaired: unknown names, arity mismatches, a conclusion variable that does not occur in the premise etc. raise
FprogError (the caller reports a broken correspondence).
"""
import os
import re

from translate import ram


class FprogError(Exception):
    pass


def norm(s):
    return s.replace("_", "").lower()


def _tname(i):
    letters = "abcdefghijklmnopqrstuvwxyz"
    s = ""
    i += 1
    while i > 0:
        i -= 1
        s = letters[i % 26] + s
        i //= 26
    return "T" + s


def name_maps(sig):
    rel = {}
    for i, r in enumerate(sig["rels"]):
        k = norm(r["name"])
        if k in rel:
            raise FprogError("two relations are spelled %s after normalisation" % k)
        rel[k] = i
    ty = {norm(_tname(i)): i for i in range(sig["ntypes"])}
    return rel, ty


def close_until_order(module_text):
    """Names of the exported rule-module functions in the order close_until calls them (each is called as
    `let env = XEnv { .. }; name(env);`)."""
    m = re.search(r"pub fn close_until\(&mut self, condition: impl Fn\(&Self\) -> bool\) -> bool\s*\{", module_text)
    if not m:
        raise FprogError("close_until not found in the emitted module")
    i = m.end() - 1
    depth = 0
    j = i
    while j < len(module_text):
        if module_text[j] == "{":
            depth += 1
        elif module_text[j] == "}":
            depth -= 1
            if depth == 0:
                break
        j += 1
    body = module_text[i:j]
    calls = re.findall(r"^\s*(\w+)\(env\);\s*$", body, re.M)
    links = dict((b, a) for a, b in re.findall(r'#\[link_name = "(\w+)"\]\s*safe fn (\w+)\(env: \w+\);', module_text))
    for c in calls:
        if c not in links:
            raise FprogError("close_until calls %s, which is not a declared rule-module function" % c)
    if sorted(calls) != sorted(links):
        raise FprogError("close_until calls %s but the module declares %s" % (sorted(calls), sorted(links)))
    # the loop body must run them BEFORE move_new_to_old
    mv = body.find("self.move_new_to_old();")
    last = max([body.find("%s(env);" % c) for c in calls] or [0])
    if mv < 0 or last > mv:
        raise FprogError("close_until does not call every rule module before move_new_to_old")
    return [(c, links[c]) for c in calls]


def weights_of(module_text, relmap):
    out = {}
    for name, w in re.findall(r"const (\w+)_WEIGHT: usize = (\d+);", module_text):
        k = norm(name)
        if k not in relmap:
            raise FprogError("weight constant %s_WEIGHT belongs to no relation of the source program" % name)
        out[relmap[k]] = int(w)
    missing = [i for i in relmap.values() if i not in out]
    if missing:
        raise FprogError("relations %s have no weight constant" % sorted(missing))
    return sorted(out.items())


def main_call_order(path):
    text = open(path, encoding="utf-8").read()
    m = re.search(r"#\[unsafe\(no_mangle\)\]\s*pub fn (\w+)\(mut env: \w+\)\s*\{(.*?)\n\}", text, re.S)
    if not m:
        raise FprogError("%s: no exported main fn" % path)
    return m.group(1), re.findall(r"^\s*(\w+)\(&mut env\);\s*$", m.group(2), re.M)


def translate_fn(fn, relmap, tymap, sig, var=None):
    """var: the variable numbering shared by the rule functions of one rule module (the flat variable names of the comments
    are those of the whole rule group), so that the sub-rules of a family are literally aged copies of one source rule."""
    kinds = ram.atom_kinds(fn)
    var = {} if var is None else var

    def v(x):
        return var.setdefault(x, len(var))
    prem = []
    for k, (rel, diag, args, age) in enumerate(fn["flat"]["premise"]):
        if kinds[k] == "ty":
            t = norm(rel[:-3])
            if t not in tymap:
                raise FprogError("rule %s: type set of unknown type %s" % (fn["name"], rel))
            if len(args) != 1:
                raise FprogError("rule %s: type set atom %s with %d arguments" % (fn["name"], rel, len(args)))
            prem.append(("ty", tymap[t], [v(args[0])], age))
            continue
        if norm(rel) not in relmap:
            raise FprogError("rule %s: unknown relation %s" % (fn["name"], rel))
        ri = relmap[norm(rel)]
        n = len(sig["rels"][ri]["cols"])
        if diag is None:
            cols = list(args)
        else:
            if len(diag) != n or any(e > i or diag[e] != e for i, e in enumerate(diag)):
                raise FprogError("rule %s: malformed diagonal %s of %s" % (fn["name"], diag, rel))
            reps = [i for i, e in enumerate(diag) if e == i]
            if len(reps) != len(args):
                raise FprogError("rule %s: %s[diag=%s] has %d arguments for %d representative columns" % (fn["name"], rel, diag, len(args), len(reps)))
            cols = [args[reps.index(e)] for e in diag]
        if len(cols) != n:
            raise FprogError("rule %s: %s has %d columns, the atom has %d" % (fn["name"], rel, n, len(cols)))
        prem.append(("rel", ri, [v(a) for a in cols], age))
    bound = set(var)
    conc = []
    for (kind, name, args) in fn["flat"]["conclusion"]:
        for a in args:
            if a not in bound:
                raise FprogError("rule %s: conclusion variable %s does not occur in the premise" % (fn["name"], a))
        if kind == "eq":
            if norm(name) not in tymap or len(args) != 2:
                raise FprogError("rule %s: equality conclusion %s(%s)" % (fn["name"], name, args))
            conc.append(("eq", tymap[norm(name)], [v(a) for a in args]))
            continue
        if norm(name) not in relmap:
            raise FprogError("rule %s: conclusion on unknown relation %s" % (fn["name"], name))
        ri = relmap[norm(name)]
        r = sig["rels"][ri]
        if kind == "def":
            if not r["func"] or len(args) != len(r["cols"]) - 1:
                raise FprogError("rule %s: definition conclusion %sDef(%s)" % (fn["name"], name, args))
        elif len(args) != len(r["cols"]):
            raise FprogError("rule %s: conclusion %s(%s) has the wrong number of arguments" % (fn["name"], name, args))
        conc.append((kind, ri, [v(a) for a in args]))
    return {"name": fn["name"], "group": fn["group"], "prem": prem, "conc": conc, "nvars": len(var)}


def families_of(rules, sig):
    """Groups the translated sub-rules into families and recovers one SOURCE flat rule per family by erasing ages.
    Family of `<group>_<stage>_<i>`: `<group>_<stage>`; the atom that is [new] in sub-rule i is source atom i
    (to_semi_naive: before i all, i new, after i old).  `functionality_<id>` in group functionality_<f>: the implicit rule
    func_rule f n.  An atom-less rule is its own family.
    -> [{"name", "kind": "func"|"family"|"empty", "members": [index into rules], "src": {"prem": [(kind, id, args)], "conc"} |
        ("func", f, nargs), "problems": [..]}]"""
    fams, by_name = [], {}
    for idx, ru in enumerate(rules):
        n, g = ru["name"], ru["group"]
        if re.match(r"^functionality_\d+$", n) and g.startswith("functionality_"):
            key, kind, pos = n, "func", 0
        elif not ru["prem"]:
            key, kind, pos = n, "empty", 0
        else:
            m = re.match(r"^%s_(\d+)_(\d+)$" % re.escape(g), n)
            if not m:
                raise FprogError("rule %s does not have the form %s_<stage>_<subrule>" % (n, g))
            key, kind, pos = "%s_%s" % (g, m.group(1)), "family", int(m.group(2))
        if key not in by_name:
            by_name[key] = {"name": key, "kind": kind, "members": [], "pos": [], "problems": []}
            fams.append(by_name[key])
        f = by_name[key]
        if f["kind"] != kind:
            raise FprogError("family %s mixes kinds" % key)
        f["members"].append(idx)
        f["pos"].append(pos)
    for f in fams:
        mem = [rules[i] for i in f["members"]]
        if f["kind"] == "func":
            ru = mem[0]
            a = ru["prem"][0]
            f["src"] = ("func", a[1], len(a[2]) - 1)
            if len(mem) != 1:
                f["problems"].append("%d functionality sub-rules" % len(mem))
            continue
        if f["kind"] == "empty":
            f["src"] = {"prem": [], "conc": mem[0]["conc"]}
            continue
        order = sorted(range(len(mem)), key=lambda k: f["pos"][k])
        if [f["pos"][k] for k in order] != list(range(len(mem))):
            f["problems"].append("sub-rule indices %s are not 0..%d" % (sorted(f["pos"]), len(mem) - 1))
        prem = []
        for k in order:
            news = [a for a in mem[k]["prem"] if a[3] == "new"]
            if len(news) != 1:
                f["problems"].append("sub-rule %s has %d [new] atoms" % (mem[k]["name"], len(news)))
                prem = None
                break
            prem.append(news[0][:3])
        if prem is None or len(prem) != len(mem[order[0]]["prem"]):
            if prem is not None:
                f["problems"].append("%d sub-rules for %d premise atoms" % (len(mem), len(mem[order[0]]["prem"])))
            prem = [a[:3] for a in mem[order[0]]["prem"]]
        f["src"] = {"prem": prem, "conc": mem[order[0]]["conc"]}
    return fams


def family_rows(fam, rules):
    """For the labelling search of translate/flat.py: per sub-rule [(source atom id, age code)], or None when the atoms of a
    sub-rule cannot be aligned with the source atoms one to one (identical atoms, foreign atoms)."""
    if fam["kind"] != "family":
        return None
    src = fam["src"]["prem"]
    if len(set((a[0], a[1], tuple(a[2])) for a in src)) != len(src):
        return None
    ident = {(a[0], a[1], tuple(a[2])): i for i, a in enumerate(src)}
    rows = []
    for i in fam["members"]:
        row = []
        for a in rules[i]["prem"]:
            k = (a[0], a[1], tuple(a[2]))
            if k not in ident:
                return None
            row.append((ident[k], {"new": 0, "old": 1, "all": 2}[a[3]]))
        rows.append(row)
    return rows


def translate(comp_dir, module_text, sig):
    relmap, tymap = name_maps(sig)
    files = ram.component_files(comp_dir)
    if not files:
        raise FprogError("no rule modules below %s" % comp_dir)
    by_symbol = {}
    problems = []
    ndiag = 0
    for path in files:
        try:
            fns = ram.parse_component_file(path)
        except ram.RamParseError as ex:
            raise FprogError(str(ex))
        symbol, calls = main_call_order(path)
        byname = {f["name"]: f for f in fns}
        seq = []
        for c in calls:
            if c not in byname:
                raise FprogError("%s: main fn calls unknown rule function %s" % (path, c))
            seq.append(byname[c])
        for f in fns:
            ndiag += sum(1 for a in f["flat"]["premise"] if a[1] is not None)
            if f["called"] != 1:
                problems.append("%s: rule function %s is called %d times" % (os.path.basename(path), f["name"], f["called"]))
        by_symbol[symbol] = seq
    order = close_until_order(module_text)
    if sorted(s for (_, s) in order) != sorted(by_symbol):
        raise FprogError("close_until calls %s, the component directory holds %s" % (sorted(s for _, s in order), sorted(by_symbol)))
    rules = []
    for (_, symbol) in order:
        var = {}
        for fn in by_symbol[symbol]:
            rules.append(translate_fn(fn, relmap, tymap, sig, var))
    arity = [(i, len(r["cols"]), bool(r["func"])) for i, r in enumerate(sig["rels"])]
    restype = [(i, r["cols"][-1]) for i, r in enumerate(sig["rels"]) if r["func"]]
    ages = {"new": 0, "old": 0, "all": 0}
    for ru in rules:
        for a in ru["prem"]:
            ages[a[3]] += 1
    return {"rules": rules, "families": families_of(rules, sig), "arity": arity, "restype": restype, "weights": weights_of(module_text, relmap),
            "order": [c for (c, _) in order], "problems": problems,
            "stats": {"modules": len(order), "subrules": len(rules), "atoms": ages,
                      "diag_atoms": ndiag,
                      "def_conclusions": sum(1 for ru in rules for c in ru["conc"] if c[0] == "def"),
                      "eq_conclusions": sum(1 for ru in rules for c in ru["conc"] if c[0] == "eq")}}


def check_embedded(comp_dir, module_mode_text):
    """Module mode inlines every rule module as `mod <group> { <component source> }`.  The driver of the tie is built from the
    module-mode text; the component sources translated here must occur in it verbatim.  -> list of problems."""
    bad = []
    for path in ram.component_files(comp_dir):
        text = open(path, encoding="utf-8").read().strip()
        if text not in module_mode_text:
            bad.append("%s does not occur verbatim in the module-mode output" % os.path.basename(path))
    n = len(re.findall(r"^mod \w+ \{$", module_mode_text, re.M))
    if n != len(ram.component_files(comp_dir)):
        bad.append("module mode inlines %d rule modules, component mode wrote %d" % (n, len(ram.component_files(comp_dir))))
    return bad


# ------------------------------------------------------------------------------------------------ Gallina printing

def _nl(xs):
    return "[" + "; ".join("%d" % x for x in xs) + "]"


AGE = {"new": "New", "old": "Old", "all": "All"}


def rule_coq(ru):
    prem = "; ".join("{| fa_rel := %s %d; fa_args := %s; fa_age := %s |}" % ("FTySet" if k == "ty" else "FRel", i, _nl(args), AGE[age])
                     for (k, i, args, age) in ru["prem"])
    conc = []
    for (k, i, args) in ru["conc"]:
        if k == "eq":
            conc.append("CEq %d %d" % (args[0], args[1]))
        elif k == "def":
            conc.append("CDef %d %s" % (i, _nl(args)))
        else:
            conc.append("CRel %d %s" % (i, _nl(args)))
    return "{| fr_prem := [%s]; fr_conc := [%s] |}" % (prem, "; ".join(conc))


def fprogram_coq(fp):
    """Gallina term of type Engine.Model.fprogram (needs `Open Scope N_scope` and ListNotations)."""
    ar = "; ".join("(%d, %d, %s)" % (i, n, "true" if f else "false") for (i, n, f) in fp["arity"])
    rt = "; ".join("(%d, %d)" % p for p in fp["restype"])
    return "{| fp_arity := [%s]; fp_restype := [%s]; fp_rules := [%s] |}" % (ar, rt, ";\n  ".join(rule_coq(r) for r in fp["rules"]))


def src_coq(fp):
    """Gallina `list frule`: the source flat rules recovered from the families (functionality rules as `func_rule f n`)."""
    out = []
    for f in fp["families"]:
        if f["kind"] == "func":
            out.append("func_rule %d %d%%nat" % (f["src"][1], f["src"][2]))
        else:
            out.append(rule_coq({"prem": [a + ("all",) for a in f["src"]["prem"]], "conc": f["src"]["conc"]}))
    return "[" + ";\n  ".join(out) + "]"


def weights_coq(fp):
    return "[" + "; ".join("(%d, %d)" % p for p in fp["weights"]) + "]"


if __name__ == "__main__":
    import json
    import sys
    sig = json.load(open(sys.argv[3]))
    fp = translate(sys.argv[1], open(sys.argv[2]).read(), sig)
    print(fprogram_coq(fp))
    print(weights_coq(fp))
    print(json.dumps(fp["stats"]))
