"""Translator for property C16: emitted component sources -> sub-rule families.

Input: the rule-module sources `comp/<theory>.eql/eql_<len>_<theory>_<group>.rs` written by eqlog in component
mode. Every rule function is preceded by the flat-rule comment printed by rust_gen/flat_eqlog.rs:

    // rule NAME:
    // if:
    // - rel(vars) [new|old|all]        (or a single `// ` line when the premise is empty)
    // then:
    // - rel(vars)
    fn NAME(env: &mut <Group>Env) {
    let setK_<field>_r0 =
    env.<field>
    ;
    ...

Names (eqlog/src/flatten.rs, flat_eqlog/semi_naive.rs): group = rule name or `anonymous_rule_<id>`; stage rule
`<group>_<stage>`; sub-rule `<group>_<stage>_<i>`; a stage with an EMPTY premise keeps the stage name (one
atom-less sub-rule); the implicit rule of a function is group `functionality_<rel>` with the single sub-rule
`functionality_<func id>`.

What is extracted, per sub-rule: atoms and ages of the comment (premise positions K = 0..n-1 in comment order),
the `env.<field>` tables bound by `setK_..._r0`, the tables *consumed* at every iteration / emptiness guard, the
pushes. `check_subrule` compares comment and code; `build_family` aligns atoms across the sub-rules of a family.
Nothing here decides exactness of a family: that is coq/SemiNaive `check_family`.
"""
import itertools
import os
import re

AGE_CODE = {"new": 0, "old": 1, "all": 2}

ATOM = re.compile(r"^- (?P<rel>[^\s(]+)\((?P<args>[^)]*)\)(?: \[(?P<age>new|old|all)\])?$")
FIELD = re.compile(r"^(?P<rel>.+)_(?P<age>new|old)_(?P<rest>(?:eqs(?:_\d+)+_)?order_(?:\d+(?:_\d+)*)?)$")
BIND = re.compile(r"let\s+set(\d+)_(\w+?)_r0\s*=\s*env\.(\w+)\s*;")
RESTRICT = re.compile(r"let\s+set(\d+)_(\w+?)_r(\d+)\s*=\s*LazyCell::new\(\|\|\s*\{\s*set(\d+)_(\w+?)_r(\d+)\.get\((\w+)\)")
PUSH = re.compile(r"env\.(\w+)\.push\(\[([^\]]*)\]\);")


class ParseError(Exception):
    pass


def norm_name(s):
    return s.replace("_", "").lower()


def parse_atom(line, premise):
    m = ATOM.match(line)
    if not m:
        raise ParseError("unparsable atom line %r" % line)
    args = tuple(a.strip() for a in m.group("args").split(",") if a.strip())
    if premise and m.group("age") is None:
        raise ParseError("premise atom without age: %r" % line)
    if not premise and m.group("age") is not None:
        raise ParseError("conclusion atom with age: %r" % line)
    return (m.group("rel"), args, m.group("age")) if premise else (m.group("rel"), args)


def split_functions(text):
    """[(comment_lines, name, body_text)] for every `// rule` comment + following fn."""
    lines = text.split("\n")
    out = []
    i = 0
    while i < len(lines):
        if not lines[i].startswith("// rule "):
            i += 1
            continue
        j = i
        comment = []
        while j < len(lines) and lines[j].startswith("//"):
            comment.append(lines[j][2:].strip() if lines[j][2:].strip() else "")
            j += 1
        m = re.match(r"fn\s+(\w+)\(env: &mut (\w+)\)\s*\{", lines[j] if j < len(lines) else "")
        if not m:
            raise ParseError("comment block at line %d is not followed by a rule fn" % (i + 1))
        depth, k = 0, j
        body = []
        while k < len(lines):
            depth += lines[k].count("{") - lines[k].count("}")
            body.append(lines[k])
            k += 1
            if depth == 0:
                break
        out.append((comment, m.group(1), m.group(2), "\n".join(body)))
        i = k
    return out


def parse_subrule(comment, fn_name, body):
    m = re.match(r"rule (\w+):$", comment[0])
    if not m:
        raise ParseError("bad rule header %r" % comment[0])
    if m.group(1) != fn_name:
        raise ParseError("comment names rule %s but the function is %s" % (m.group(1), fn_name))
    if len(comment) < 3 or comment[1] != "if:" or "then:" not in comment:
        raise ParseError("rule %s: comment without if:/then:" % fn_name)
    t = comment.index("then:")
    premise = [parse_atom(l, True) for l in comment[2:t] if l]
    conclusion = [parse_atom(l, False) for l in comment[t + 1:] if l]
    binds, misnamed = {}, []
    for mm in BIND.finditer(body):
        k, f1, f2 = int(mm.group(1)), mm.group(2), mm.group(3)
        if f1 != f2:
            misnamed.append("set%d_%s_r0 is bound to env.%s" % (k, f1, f2))
        binds.setdefault(k, []).append(f2)       # the table actually read
    # consumption sites: for-loops (head + chained sets) and emptiness guards. A set variable stands for the
    # tables it was derived from (`origin`): r0 = the bound table; a LazyCell restriction = its source; the loop
    # variable of a for = the union of the chained sets (it names only the first of them).
    events = []
    for mm in BIND.finditer(body):
        events.append((mm.start(), "bind", (int(mm.group(1)), mm.group(2), 0), mm.group(3)))
    for mm in RESTRICT.finditer(body):
        events.append((mm.start(), "restrict", (int(mm.group(1)), mm.group(2), int(mm.group(3))),
                       (int(mm.group(4)), mm.group(5), int(mm.group(6)))))
    for mm in re.finditer(r"\bfor\s*\(\s*(\w+)\s*,\s*set(\d+)_(\w+?)_r(\d+)\s*\)\s*in\s+((?:set\d+_\w+?_r\d+\.iter_restrictions\(\)\s*"
                          r"(?:\.chain\(set\d+_\w+?_r\d+\.iter_restrictions\(\)\)\s*)*))\{", body):
        sets = re.findall(r"set(\d+)_(\w+?)_r(\d+)\.iter_restrictions\(\)", mm.group(5))
        events.append((mm.start(), "iter", (int(mm.group(2)), mm.group(3), int(mm.group(4))),
                       [(int(a), b, int(c)) for a, b, c in sets]))
    for mm in re.finditer(r"if false((?:\s*\|\|\s*!set\d+_\w+?_r\d+\.is_empty\(\))*)\s*\{", body):
        sets = re.findall(r"set(\d+)_(\w+?)_r(\d+)\.is_empty\(\)", mm.group(1))
        events.append((mm.start(), "guard", None, [(int(a), b, int(c)) for a, b, c in sets]))
    events.sort(key=lambda e: e[0])
    origin, uses, restricts, undefined = {}, [], [], []
    for _pos, kind, target, src in events:
        if kind == "bind":
            origin[target] = {src}
        elif kind == "restrict":
            restricts.append(target + src)
            if src not in origin:
                undefined.append(src)
            origin[target] = set(origin.get(src, ()))
        else:
            for sv in src:
                if sv not in origin:
                    undefined.append(sv)
            tabs = set()
            for sv in src:
                tabs |= origin.get(sv, set())
            uses.append((kind, src, sorted(tabs)))
            if kind == "iter":
                origin[target] = tabs
    nloops = len(re.findall(r"\bfor\b", body))
    nguards = len(re.findall(r"\bif\b", body))
    if nloops != sum(1 for u in uses if u[0] == "iter") or nguards != sum(1 for u in uses if u[0] == "guard"):
        raise ParseError("rule %s: %d for / %d if statements, parsed %d / %d" % (
            fn_name, nloops, nguards, sum(1 for u in uses if u[0] == "iter"), sum(1 for u in uses if u[0] == "guard")))
    if undefined:
        raise ParseError("rule %s: set variables used before their definition: %s" % (fn_name, undefined[:3]))
    pushes = [(mm.group(1), tuple(a.strip() for a in mm.group(2).split(",") if a.strip())) for mm in PUSH.finditer(body)]
    return {"name": fn_name, "premise": premise, "conclusion": conclusion, "binds": binds, "uses": uses,
            "restricts": restricts, "pushes": pushes, "misnamed": misnamed}


def check_subrule(sr):
    """comment <-> code for one sub-rule. Returns a list of problems (empty = ok)."""
    bad = list(sr.get("misnamed", []))
    prem = sr["premise"]
    if sorted(sr["binds"]) != list(range(len(prem))):
        bad.append("premise positions bound by the code %s != positions of the comment 0..%d" % (sorted(sr["binds"]), len(prem) - 1))
        return bad
    for k, (rel, args, age) in enumerate(prem):
        fields = sr["binds"][k]
        parsed = []
        for f in fields:
            m = FIELD.match(f)
            if not m:
                bad.append("position %d: field %s is not a new/old index" % (k, f))
                continue
            parsed.append((m.group("rel"), m.group("age"), m.group("rest")))
        if len(parsed) != len(fields):
            continue
        ages = sorted(p[1] for p in parsed)
        if age == "new" and ages != ["new"]:
            bad.append("position %d: %s(%s) [new] reads %s" % (k, rel, ", ".join(args), fields))
        if age == "old" and ages != ["old"]:
            bad.append("position %d: %s(%s) [old] reads %s" % (k, rel, ", ".join(args), fields))
        if age == "all" and (ages != ["new", "old"] or parsed[0][0] != parsed[1][0] or parsed[0][2] != parsed[1][2]):
            bad.append("position %d: %s(%s) [all] reads %s, not the new and old copy of one order" % (k, rel, ", ".join(args), fields))
        # the relation of the field is the relation of the comment
        base, diag = rel, None
        dm = re.match(r"^(.*)\[diag=([0-9,]+)\]$", rel)
        if dm:
            base, diag = dm.group(1), dm.group(2).split(",")
        for (frel, _fage, rest) in parsed:
            ok = norm_name(frel) == norm_name(base) or \
                (base.endswith("Set") and len(args) == 1 and diag is None and norm_name(frel) == norm_name(base[:-3]) and rest == "order_0")
            if not ok:
                bad.append("position %d: comment says %s, the code reads table %s" % (k, rel, frel))
            em = re.match(r"^eqs((?:_\d+)+)_order", rest)
            if (diag is None) != (em is None) or (diag is not None and em.group(1).strip("_").split("_") != diag):
                bad.append("position %d: diagonal of %s does not match index %s" % (k, rel, rest))
            order = [x for x in re.sub(r"^eqs(?:_\d+)+_", "", rest)[len("order_"):].split("_") if x]
            if len(order) != len(args):
                bad.append("position %d: %s has %d columns, index order %s" % (k, rel, len(args), rest))
            elif sorted(order) != [str(i) for i in range(len(order))]:
                bad.append("position %d: index order %s is not a permutation" % (k, rest))
    # every consumption site of position K consumes exactly the tables bound for K
    seen = set()
    for kind, sets, tabs in sr["uses"]:
        ks = {s[0] for s in sets}
        if len(ks) != 1:
            bad.append("a %s mixes premise positions %s" % (kind, sorted(ks)))
            continue
        k = ks.pop()
        seen.add(k)
        if k not in sr["binds"] or tabs != sorted(sr["binds"][k]):
            bad.append("position %d: a %s consumes %s, bound are %s" % (k, kind, tabs, sorted(sr["binds"].get(k, []))))
    if seen != set(sr["binds"]):
        bad.append("positions %s are bound but never iterated or guarded" % sorted(set(sr["binds"]) - seen))
    for (k, f, r, k2, f2, r2) in sr["restricts"]:
        if (k, f) != (k2, f2) or r != r2 + 1:
            bad.append("restriction set%d_%s_r%d is taken from set%d_%s_r%d" % (k, f, r, k2, f2, r2))
    # conclusions: one push per conclusion atom, same arguments
    if len(sr["pushes"]) != len(sr["conclusion"]):
        bad.append("%d pushes for %d conclusion atoms" % (len(sr["pushes"]), len(sr["conclusion"])))
    else:
        for (field, pargs), (rel, cargs) in zip(sr["pushes"], sr["conclusion"]):
            if pargs != cargs:
                bad.append("conclusion %s(%s) is pushed as %s[%s]" % (rel, ", ".join(cargs), field, ", ".join(pargs)))
            base = rel
            if "==" in rel:
                want = "new_%s_equalities" % rel.split("==")[0]
            elif rel.endswith("Def") and norm_name(field) == norm_name("new_%s_def" % rel[:-3]):
                want = field
            else:
                want = "new_%s" % base
            if norm_name(field) != norm_name(want):
                bad.append("conclusion %s is pushed to %s" % (rel, field))
    return bad


def parse_component(path, theory):
    """-> dict(group, env, subrules=[...], calls={fn: count})."""
    text = open(path).read()
    base = os.path.basename(path)
    prefix = "eql_%d_%s_" % (len(theory), theory)
    if not base.startswith(prefix) or not base.endswith(".rs"):
        raise ParseError("unexpected component file name %s" % base)
    group = base[len(prefix):-3]
    subs = []
    for comment, name, env, body in split_functions(text):
        sr = parse_subrule(comment, name, body)
        sr["env"] = env
        subs.append(sr)
    m = re.search(r"#\[unsafe\(no_mangle\)\]\s*pub fn (\w+)\(mut env: (\w+)\)\s*\{(.*?)\n\}", text, re.S)
    if not m:
        raise ParseError("%s: no exported main fn" % base)
    if m.group(1) != prefix + group:
        raise ParseError("%s: exported fn is %s" % (base, m.group(1)))
    calls = {}
    for c in re.findall(r"(\w+)\(&mut env\);", m.group(3)):
        calls[c] = calls.get(c, 0) + 1
    nfn = len(re.findall(r"^fn\s+\w+\(env: &mut", text, re.M))
    if nfn != len(subs):
        raise ParseError("%s: %d rule functions but %d flat-rule comments" % (base, nfn, len(subs)))
    return {"group": group, "file": base, "subrules": subs, "calls": calls}


def group_families(comp):
    """Split the sub-rules of one component into families. -> [dict(name, kind, subrules)]; kind in
    exact | functionality | empty."""
    g = comp["group"]
    fams = {}
    order = []
    for sr in comp["subrules"]:
        n = sr["name"]
        if re.match(r"^functionality_\d+$", n) and g.startswith("functionality_"):
            key, kind = n, "functionality"
        elif not sr["premise"]:
            key, kind = n, "empty"
            if not re.match(r"^%s_\d+$" % re.escape(g), n):
                raise ParseError("atom-less rule %s does not have the form %s_<stage>" % (n, g))
        else:
            m = re.match(r"^%s_(\d+)_(\d+)$" % re.escape(g), n)
            if not m:
                raise ParseError("rule %s does not have the form %s_<stage>_<subrule>" % (n, g))
            key, kind = "%s_%s" % (g, m.group(1)), "exact"
            sr["index"] = int(m.group(2))
        if key not in fams:
            fams[key] = {"name": key, "kind": kind, "subrules": [], "group": g}
            order.append(key)
        if fams[key]["kind"] != kind:
            raise ParseError("family %s mixes atom-less and ordinary sub-rules" % key)
        fams[key]["subrules"].append(sr)
    return [fams[k] for k in order]


def atom_key(a):
    return (a[0], a[1])


def enum_count(rows, n):
    """rows: list of sub-rules as lists of (atom id, age code). -> {labelling tuple: number of accepting sub-rules}."""
    res = {}
    for lab in itertools.product((False, True), repeat=n):
        c = 0
        for r in rows:
            if all((lab[i] if a == 0 else (not lab[i]) if a == 1 else True) for (i, a) in r):
                c += 1
        res[lab] = c
    return res


def family_exact_py(rows, n):
    """The syntactic criterion of coq/SemiNaive (pos_ok, proved equivalent to the 2^n enumeration): every sub-rule
    mentions each id once and has a New atom, any two sub-rules conflict (New against Old at some atom), and the
    volumes 2^(#All) add up to 2^n - 1. Used only to choose how identical atoms are treated and to cross-check."""
    if n == 0 or not rows:
        return False
    pos = []
    for r in rows:
        if sorted(i for i, _ in r) != list(range(n)):
            return False
        d = dict(r)
        pos.append([d[i] for i in range(n)])
    if any(0 not in r for r in pos):
        return False
    for x in range(len(pos)):
        for y in range(x + 1, len(pos)):
            if not any((a, b) in ((0, 1), (1, 0)) for a, b in zip(pos[x], pos[y])):
                return False
    return sum(2 ** sum(1 for a in r if a == 2) for r in pos) == 2 ** n - 1


AGE_RANK = {2: 0, 0: 1, 1: 2}      # all < new < old: the order of ages along the positions of a to_semi_naive sub-rule
MEET = {frozenset([0]): 0, frozenset([1]): 1, frozenset([2]): 2, frozenset([0, 2]): 0, frozenset([1, 2]): 1}


def align(fam, age_of):
    """Number the premise atoms of every sub-rule of a family. age_of(sub-rule, position) -> age code or None.
    -> dict(atoms, rows, collapsed, dropped) or None when a sub-rule has other atoms / an unknown age.

    Distinct atoms get the id of their position in sub-rule 0. k identical copies of an atom share k ids; inside a
    sub-rule the copies are numbered in the order all < new < old of their ages (the order in which ages occur along
    the positions of a sub-rule printed by to_semi_naive, so this recovers the positional identity).
    If the family is not exact under that numbering, the copies are COLLAPSED instead: identical atoms match the same
    tuple, so a sub-rule's requirement on that tuple is the conjunction of the ages of the copies (new+all = new,
    old+all = old, new+old = unsatisfiable: the sub-rule enumerates nothing and is dropped); the family is then a
    family over the distinct atoms, which is what the property quantifies over."""
    subs = fam["subrules"]
    atoms = [atom_key(a) for a in subs[0]["premise"]]
    ids_of = {}
    for i, a in enumerate(atoms):
        ids_of.setdefault(a, []).append(i)
    rows = []
    for sr in subs:
        these = [atom_key(a) for a in sr["premise"]]
        if sorted(these) != sorted(atoms):
            return None
        ages = [age_of(sr, k) for k in range(len(these))]
        if any(a is None for a in ages):
            return None
        ids = [None] * len(these)
        for a, group in ids_of.items():
            occ = [k for k in range(len(these)) if these[k] == a]
            occ.sort(key=lambda k: (AGE_RANK[ages[k]], k))
            for k, i in zip(occ, group):
                ids[k] = i
        rows.append([(ids[k], ages[k]) for k in range(len(these))])
    dup = any(len(v) > 1 for v in ids_of.values())
    res = {"atoms": atoms, "rows": rows, "collapsed": False, "dropped": []}
    if dup and fam["kind"] == "exact" and not family_exact_py(rows, len(atoms)):
        distinct = list(ids_of)                      # in order of first occurrence
        did = {a: i for i, a in enumerate(distinct)}
        crow, dropped = [], []
        for sr, row in zip(subs, rows):
            req, order = {}, []
            for (i, age) in row:
                d = did[atoms[i]]
                if d not in req:
                    order.append(d)
                req.setdefault(d, set()).add(age)
            if any(frozenset(v) not in MEET for v in req.values()):
                dropped.append(sr["name"])
                continue
            crow.append([(d, MEET[frozenset(req[d])]) for d in order])
        res = {"atoms": distinct, "rows": crow, "collapsed": True, "dropped": dropped}
    return res


def build_family(fam):
    """Check uniformity of a family and align its atoms (comment ages). Adds to fam: atoms, rows (per kept sub-rule the
    list of (atom id, age code) in binding order), collapsed, dropped, problems, duplicates, reordered (number of
    sub-rules whose binding order differs from the id order)."""
    subs = fam["subrules"]
    problems = []
    first = subs[0]
    atoms = [atom_key(a) for a in first["premise"]]
    var0 = sorted({v for a in atoms for v in a[1]})
    concl0 = first["conclusion"]
    for sr in subs:
        these = [atom_key(a) for a in sr["premise"]]
        if sorted(these) != sorted(atoms):
            problems.append("sub-rule %s has atoms %s, sub-rule %s has %s" % (sr["name"], sorted(these), first["name"], sorted(atoms)))
            continue
        if sorted({v for a in these for v in a[1]}) != var0:
            problems.append("sub-rule %s binds different variables" % sr["name"])
        if sr["conclusion"] != concl0:
            problems.append("sub-rule %s has conclusions %s, sub-rule %s has %s" % (sr["name"], sr["conclusion"], first["name"], concl0))
    fam["problems"] = problems
    fam["duplicates"] = len(set(atoms)) != len(atoms)
    al = align(fam, lambda sr, k: AGE_CODE[sr["premise"][k][2]])
    if al is None:
        fam.update({"atoms": atoms, "rows": None, "collapsed": False, "dropped": []})
        return fam
    fam.update(al)
    fam["reordered"] = sum(1 for r in al["rows"] if [i for i, _ in r] != sorted(i for i, _ in r))
    return fam


def coq_family(rows):
    return "[" + "; ".join("[" + "; ".join("(%d, %d)" % p for p in r) + "]" for r in rows) + "]%N"


def failing_labelling(rows, n, sym=False):
    """First labelling whose enumeration count is wrong: (labelling, count, expected); None if there is none (or n
    is too large to enumerate)."""
    if n > 16 or any(i >= n for r in rows for i, _ in r):
        return None
    cnt = enum_count(rows, n)
    for lab in sorted(cnt):
        c = cnt[lab]
        if sym:
            sw = cnt[(lab[1], lab[0])]
            if any(lab) and not (c + sw >= 1 and c <= 1):
                return list(lab), c, ">=1 up to symmetry, <=1"
            if not any(lab) and c + sw != 0:
                return list(lab), c, 0
        else:
            want = 1 if any(lab) else 0
            if c != want:
                return list(lab), c, want
    return None
