"""Program corpus and build-driver runner shared by the translator-based checks (C16, C13).

Corpus = hand-written seeds in /verif/corpus/<id>/*.eql (run first) + every theory of /repo/eqlog-test-eval/src
(+ category_mod/category.eql) + the README semilattice (examples/semilattice) + generated programs (genprog).
All compilation goes through harness/build-driver, i.e. the real eqlog::process of /repo's working tree.
"""
import os
import shutil
import subprocess
import time
from concurrent.futures import ThreadPoolExecutor

from common import CACHE, REPO, VERIF
from translate import genprog

EXE = os.path.join(CACHE, "target", "release", "build-driver")
FAKE_RUSTC = os.path.join(VERIF, "harness", "build-driver", "fake_rustc.sh")


def runtime_rlib():
    deps = os.path.join(CACHE, "target", "release", "deps")
    c = sorted(f for f in os.listdir(deps) if f.startswith("libeqlog_runtime-") and f.endswith(".rlib"))
    return os.path.join(deps, c[0])


def repo_programs():
    """[(name, text, origin)] - nothing is skipped here; the compiler decides."""
    out = []
    src = os.path.join(REPO, "eqlog-test-eval", "src")
    for f in sorted(os.listdir(src)):
        if f.endswith(".eql"):
            out.append((f[:-4], open(os.path.join(src, f)).read(), "eqlog-test-eval/src/" + f))
    p = os.path.join(src, "category_mod", "category.eql")
    if os.path.exists(p):
        out.append(("category", open(p).read(), "eqlog-test-eval/src/category_mod/category.eql"))
    p = os.path.join(REPO, "examples", "semilattice", "src", "semilattice.eql")
    if os.path.exists(p):
        out.append(("readme_semilattice", open(p).read(), "examples/semilattice/src/semilattice.eql (README example)"))
    return out


def seed_programs(pid):
    d = os.path.join(VERIF, "corpus", pid)
    out = []
    if os.path.isdir(d):
        for f in sorted(os.listdir(d)):
            if f.endswith(".eql"):
                out.append((f[:-4], open(os.path.join(d, f)).read(), "corpus/%s/%s" % (pid, f)))
    return out


def build(mode, name, text, root, threads=None, extra_env=None, home=None, keep_rlib=False):
    """Run eqlog::process on one program in fresh directories under `root`.
    -> dict(rc, log, files={relative path: bytes}) with module source, component sources and all digests."""
    ind, out, comp = os.path.join(root, "in"), os.path.join(root, "out"), os.path.join(root, "comp")
    shutil.rmtree(root, ignore_errors=True)
    for d in (ind, out, comp):
        os.makedirs(d)
    with open(os.path.join(ind, name + ".eql"), "w") as f:
        f.write(text)
    env = dict(os.environ)
    for k in ("EQLOG_VERIF_TRACE", "EQLOG_VERIF_CRASH_AT", "EQLOG_VERIF_TORN", "EQLOG_VERIF_CRASH_KEY", "FAKE_RUSTC_FAIL"):
        env.pop(k, None)
    if threads is not None:
        env["RAYON_NUM_THREADS"] = str(threads)
    if home is not None:
        os.makedirs(home, exist_ok=True)
        env["HOME"] = home
    if extra_env:
        env.update(extra_env)
    if mode == "module":
        cmd = [EXE, "module", ind, out]
    else:
        cmd = [EXE, "component", ind, out, comp, FAKE_RUSTC, runtime_rlib()]
    t0 = time.time()
    p = subprocess.run(cmd, env=env, stdout=subprocess.PIPE, stderr=subprocess.PIPE, timeout=900)
    secs = time.time() - t0
    files = {}
    for base, tag in ((out, "out"), (comp, "comp")):
        for r, _, fs in os.walk(base):
            for fn in fs:
                if fn.endswith(".rlib") and not keep_rlib:
                    continue
                full = os.path.join(r, fn)
                files[tag + "/" + os.path.relpath(full, base)] = open(full, "rb").read()
    return {"rc": p.returncode, "stdout": p.stdout.decode("utf-8", "replace"), "stderr": p.stderr.decode("utf-8", "replace"),
            "files": files, "root": root, "secs": round(secs, 2)}


def generated_programs(rng, n, scratch, max_atoms=6, workers=16, first_index=0):
    """The first n generated programs (in generation order) that eqlog accepts.
    -> ([(name, text, origin)], number rejected, [(text, message)] samples of rejections)."""
    accepted, rejected, samples = [], 0, []
    i = first_index
    while len(accepted) < n and i < first_index + 6 * n + 20:
        batch = []
        for _ in range(max(4, min(workers, n - len(accepted)))):
            text = genprog.gen_program(rng.fork("prog%d" % i), max_atoms)
            batch.append((genprog.alpha_name(i), text))
            i += 1

        def one(nt):
            return build("module", nt[0], nt[1], os.path.join(scratch, "gen-" + nt[0]))
        with ThreadPoolExecutor(max_workers=workers) as ex:
            res = list(ex.map(one, batch))
        for (name, text), r in zip(batch, res):
            shutil.rmtree(r["root"], ignore_errors=True)
            if r["rc"] == 0:
                if len(accepted) < n:
                    accepted.append((name, text, "generated"))
            else:
                rejected += 1
                if len(samples) < 3:
                    samples.append((text, r["stderr"][:300]))
    return accepted, rejected, samples
