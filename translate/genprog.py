"""Small random eqlog programs for the translator-based checks (C16, C13).

Programs have 1-3 sorts, 2-4 predicates (arity 0-3), 1-3 functions (arity 0-2) and 2-5 rules whose premises have
1-6 source atoms (predicate atoms with repeated variables, wildcards and nested function applications, equations
`v = f(..)`, `f(..)!`, sort atoms `v: T`, variable equations `a = b`), optionally in two stages
(`if..; then..; if..; then..;`), and conclusions (predicate atoms, equations between premise variables, `f(..)!`,
`w := f(..)!`). Identifiers are alphabetic (no digit after a letter: snake/camel conversion in the generator would
otherwise rename them). Every choice comes from the Rng passed in. eqlog may still reject a program (e.g. a
surjectivity or typing corner); callers skip rejected programs and count them.
"""

SORTS = ["A", "B", "C"]
PREDS = ["p", "q", "r", "s"]
FUNCS = ["f", "g", "h"]
VARNAMES = ["x", "y", "z", "u", "v", "w", "m", "n", "o", "xx", "yy", "zz", "uu", "vv", "ww"]
RULENAMES = ["ra", "rb", "rc", "rd", "re", "rf"]


def weighted(rng, pairs):
    total = sum(w for _, w in pairs)
    k = rng.below(total)
    for v, w in pairs:
        if k < w:
            return v
        k -= w
    return pairs[-1][0]


class RuleGen:
    def __init__(self, rng, sig):
        self.rng = rng
        self.sorts, self.preds, self.funcs = sig
        self.vars = {}          # name -> sort

    def fresh(self, sort):
        for n in VARNAMES:
            if n not in self.vars:
                self.vars[n] = sort
                return ("var", n)
        return None

    def existing(self, sort):
        c = [n for n, s in self.vars.items() if s == sort]
        return ("var", self.rng.choice(c)) if c else None

    def term(self, sort, depth, allow_fresh=True, allow_wild=True):
        r = self.rng.below(100)
        fs = [f for f in self.funcs if f[2] == sort]
        if r < 12 and fs and depth < 2:
            f = self.rng.choice(fs)
            return ("app", f[0], [self.term(s, depth + 1, allow_fresh, False) for s in f[1]])
        if r < 60 or not allow_fresh:
            e = self.existing(sort)
            if e is not None:
                return e
            if not allow_fresh:
                return None
        if r >= 95 and allow_wild:
            return ("wild",)
        v = self.fresh(sort)
        return v if v is not None else (self.existing(sort) or ("wild",))

    def if_stmt(self):
        kind = weighted(self.rng, [("pred", 10), ("eqn", 4), ("def", 2), ("sort", 2), ("vareq", 1)])
        if kind == "pred" or not self.funcs and kind in ("eqn", "def"):
            p = self.rng.choice(self.preds)
            return ("pred", p[0], [self.term(s, 0) for s in p[1]])
        if kind == "eqn":
            f = self.rng.choice(self.funcs)
            lhs = self.term(f[2], 2, True, False)
            return ("eqn", lhs, ("app", f[0], [self.term(s, 1) for s in f[1]]))
        if kind == "def":
            f = self.rng.choice(self.funcs)
            return ("def", ("app", f[0], [self.term(s, 1) for s in f[1]]))
        if kind == "sort":
            s = self.rng.choice(self.sorts)
            v = self.fresh(s)
            return ("sort", v, s) if v else None
        s = self.rng.choice(self.sorts)
        a, b = self.existing(s), self.existing(s)
        if a is None or a == b:
            return None
        return ("eqn", a, b)

    def then_stmts(self):
        out = []
        for _ in range(1 + self.rng.below(2)):
            kind = weighted(self.rng, [("pred", 8), ("vareq", 3), ("def", 2), ("newdef", 2)])
            if kind == "pred":
                p = self.rng.choice(self.preds)
                args = [self.existing(s) for s in p[1]]
                if all(a is not None for a in args):
                    out.append(("pred", p[0], args))
            elif kind == "vareq":
                s = self.rng.choice(self.sorts)
                a, b = self.existing(s), self.existing(s)
                if a is not None and a != b:
                    out.append(("eqn", a, b))
            elif self.funcs:
                f = self.rng.choice(self.funcs)
                args = [self.existing(s) for s in f[1]]
                if all(a is not None for a in args):
                    if kind == "def":
                        out.append(("def", ("app", f[0], args)))
                    else:
                        w = self.fresh(f[2])
                        if w is not None:
                            out.append(("newdef", w, ("app", f[0], args)))
                            ps = [p for p in self.preds if f[2] in p[1]]
                            if ps:
                                p = self.rng.choice(ps)
                                pargs = [w if s == f[2] else self.existing(s) for s in p[1]]
                                if all(a is not None for a in pargs):
                                    out.append(("pred", p[0], pargs))
        return out


def occurrences(t, acc):
    if t is None:
        return
    if t[0] == "var":
        acc[t[1]] = acc.get(t[1], 0) + 1
    elif t[0] == "app":
        for a in t[2]:
            occurrences(a, acc)


def stmt_terms(st):
    k = st[1]
    if k[0] == "pred":
        return list(k[2])
    if k[0] == "eqn":
        return [k[1], k[2]]
    if k[0] == "def":
        return [k[1]]
    if k[0] == "sort":
        return [k[1]]
    return [k[1], k[2]]       # newdef


def subst_wild(t, name):
    if t[0] == "var" and t[1] == name:
        return ("wild",)
    if t[0] == "app":
        return ("app", t[1], [subst_wild(a, name) for a in t[2]])
    return t


def fix_singletons(stmts):
    """eqlog rejects a variable that occurs once: turn it into a wildcard / drop the statement naming it."""
    for _ in range(12):
        acc = {}
        for st in stmts:
            for t in stmt_terms(st):
                occurrences(t, acc)
        single = [n for n, c in acc.items() if c == 1]
        if not single:
            return stmts
        out = []
        for (where, k) in stmts:
            if k[0] == "sort" and k[1][1] in single:
                continue
            if k[0] == "newdef" and k[1][1] in single:
                out.append((where, ("def", k[2])))
                continue
            if k[0] == "eqn" and where == "if":
                if k[1][0] == "var" and k[1][1] in single:
                    if k[2][0] == "app":
                        out.append((where, ("def", k[2])))
                    continue
                if k[2][0] == "var" and k[2][1] in single:
                    continue
            if where == "if":
                for n in single:
                    if k[0] == "pred":
                        k = ("pred", k[1], [subst_wild(a, n) for a in k[2]])
                    elif k[0] == "def":
                        k = ("def", subst_wild(k[1], n))
                    elif k[0] == "eqn":
                        k = ("eqn", subst_wild(k[1], n), subst_wild(k[2], n))
            out.append((where, k))
        stmts = out
    return stmts


def show_term(t):
    if t[0] == "var":
        return t[1]
    if t[0] == "wild":
        return "_"
    return "%s(%s)" % (t[1], ", ".join(show_term(a) for a in t[2]))


def show_stmt(st):
    where, k = st
    if k[0] == "pred":
        body = "%s(%s)" % (k[1], ", ".join(show_term(a) for a in k[2]))
    elif k[0] == "eqn":
        body = "%s = %s" % (show_term(k[1]), show_term(k[2]))
    elif k[0] == "def":
        body = "%s!" % show_term(k[1])
    elif k[0] == "sort":
        body = "%s: %s" % (k[1][1], k[2])
    else:
        body = "%s := %s!" % (k[1][1], show_term(k[2]))
    return "    %s %s;" % (where, body)


def gen_rule(rng, sig, name, max_atoms):
    g = RuleGen(rng, sig)
    nullary_p = [p for p in g.preds if not p[1]]
    nullary_f = [f for f in g.funcs if not f[1]]
    if rng.below(100) < 7 and (nullary_p or nullary_f):
        # empty premise: one atom-less sub-rule
        if nullary_p and (not nullary_f or rng.below(2) == 0):
            body = ["    then %s();" % rng.choice(nullary_p)[0]]
        else:
            body = ["    then %s()!;" % rng.choice(nullary_f)[0]]
        return "rule %s{\n%s\n}\n" % (name + " " if name else "", "\n".join(body))
    n_if = 1 + rng.below(max_atoms)
    two_stage = n_if >= 2 and rng.below(100) < 30
    cut = 1 + rng.below(n_if - 1) if two_stage else n_if
    stmts = []
    for i in range(n_if):
        if i == cut:
            stmts.extend(("then", t) for t in g.then_stmts())
        s = g.if_stmt()
        if s is not None:
            stmts.append(("if", s))
    stmts.extend(("then", t) for t in g.then_stmts())
    stmts = fix_singletons(stmts)
    if not any(w == "then" for w, _ in stmts) or not any(w == "if" for w, _ in stmts):
        return None
    return "rule %s{\n%s\n}\n" % (name + " " if name else "", "\n".join(show_stmt(s) for s in stmts))


def gen_program(rng, max_atoms=6):
    nsorts = weighted(rng, [(1, 4), (2, 5), (3, 1)])
    sorts = SORTS[:nsorts]
    preds = []
    for name in PREDS[:2 + rng.below(3)]:
        ar = weighted(rng, [(0, 1), (1, 4), (2, 6), (3, 2)])
        preds.append((name, [rng.choice(sorts) for _ in range(ar)]))
    funcs = []
    for name in FUNCS[:1 + rng.below(3)]:
        ar = weighted(rng, [(0, 1), (1, 5), (2, 3)])
        funcs.append((name, [rng.choice(sorts) for _ in range(ar)], rng.choice(sorts)))
    lines = ["type %s;" % s for s in sorts]
    lines += ["pred %s(%s);" % (n, ", ".join(a)) for n, a in preds]
    lines += ["func %s(%s) -> %s;" % (n, ", ".join(a), r) for n, a, r in funcs]
    rules = []
    nrules = 2 + rng.below(4)
    tries = 0
    while len(rules) < nrules and tries < 40:
        tries += 1
        name = RULENAMES[len(rules)] if rng.below(100) < 70 else ""
        r = gen_rule(rng, (sorts, preds, funcs), name, max_atoms)
        if r is not None:
            rules.append(r)
    return "\n".join(lines) + "\n" + "".join(rules)


def alpha_name(i):
    return "gen_" + "abcdefghijklmnopqrstuvwxyz"[(i // 26) % 26] + "abcdefghijklmnopqrstuvwxyz"[i % 26]
