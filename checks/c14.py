"""C14 - the ordered map stays balanced, exact and persistent.

Deciding method: Coq theorems about an exact Gallina model of WBTreeMap (coq/WBT: same case structure as
map.rs, cached sizes, so that tree *shapes* coincide), tied to /repo by exact step-by-step correspondence on
families of clones: return value, len, in-order contents and the pre-order shape (hook verif_shape) of
every handle after every operation.
"""
import itertools
import os
import re
import subprocess
from concurrent.futures import ThreadPoolExecutor

from common import Rng, VERIF, sh, tail

LEVEL = "proof"
REQUIRED = ["C14_inv_reachable", "C14_no_panic", "C14_run_refines", "C14_union", "C14_difference",
            "C14_height_log", "C14_persistence", "C14_join_inv", "C14_insert", "C14_remove",
            "C14_iter_sorted", "C14_len_refines", "C14_inv_b_sound", "C14_inv_b_complete"]

# opcode -> (coq ctor, arg kinds)  h=handle k=key v=value d=delta s=selector
OPS = {
    0: ("Insert", "hkv"), 1: ("Remove", "hk"), 2: ("Get", "hk"), 3: ("GetMutSet", "hkv"), 4: ("Contains", "hk"),
    5: ("Len", "h"), 6: ("IsEmpty", "h"), 7: ("Clear", "h"), 8: ("Iter", "h"), 9: ("IterMutAdd", "hd"),
    10: ("EntryOrInsert", "hkv"), 11: ("EntryOrInsertWith", "hkv"), 12: ("EntryRemove", "hk"),
    13: ("EntryGetMutSet", "hkv"), 14: ("EntryIntoMutSet", "hkv"), 15: ("EntryVacantInsert", "hkv"),
    16: ("Clone", "hh"), 17: ("Union", "hhhs"), 18: ("Difference", "hhhs"),
}


def op_rust(op):
    return " ".join(str(x) for x in op)


def op_coq(op):
    return "%s %s" % (OPS[op[0]][0], " ".join(str(x) for x in op[1:]))


def universe(keys, handles, vals):
    u = []
    for code, (_, kinds) in OPS.items():
        doms = []
        for k in kinds:
            doms.append({"h": handles, "k": keys, "v": vals, "d": [3], "s": [0, 2] if code == 18 else [0]}[k])
        for args in itertools.product(*doms):
            u.append((code,) + args)
    return u


def rand_op(rng, nkeys, nh, weights):
    code = weights[rng.below(len(weights))]
    kinds = OPS[code][1]
    args = []
    for k in kinds:
        if k == "h":
            args.append(rng.below(nh))
        elif k == "k":
            args.append(rng.below(nkeys))
        elif k == "v":
            args.append(1 + rng.below(50))
        elif k == "d":
            args.append(1 + rng.below(5))
        else:
            args.append(rng.below(3 if code == 18 else 2))
    return (code,) + tuple(args)


def gen_sequences(ctx):
    rng = Rng(ctx.seed)
    quick = ctx.tier == "quick"
    seqs = []
    u = universe([0, 1, 2], [0, 1], [7])
    for a in u:
        seqs.append([a])
    for a in u:
        for b in u:
            seqs.append([a, b])
    n_exh = len(seqs)
    if not quick:
        # length 3 over a reduced universe
        u3 = universe([0, 1], [0, 1], [7])
        for a in u3:
            for b in u3:
                for c in u3:
                    seqs.append([a, b, c])
        n_exh = len(seqs)
    # insertion/removal heavy weights so that trees grow and rotations (single and double) happen
    w_grow = [0] * 8 + [10, 11, 15] + [1, 12] * 2 + list(range(19))
    w_mix = list(range(19)) + [0, 0, 1, 1, 16, 17, 18]
    plan = [(600, 40, 16, w_mix), (200, 150, 200, w_grow), (100, 120, 64, w_mix)] if quick else \
        [(20000, 40, 16, w_mix), (3000, 200, 300, w_grow), (3000, 150, 64, w_mix)]
    for (n, length, nkeys, w) in plan:
        for _ in range(n):
            seqs.append([rand_op(rng, nkeys, 4, w) for _ in range(length)])
    return seqs, n_exh


def shape_inv(tokens):
    """Parse pre-order tokens; return (ok, why, size, height, keys)."""
    pos = [0]

    def go(lo, hi):
        t = tokens[pos[0]]
        pos[0] += 1
        if t == 0:
            return 0, 0
        key, size = tokens[pos[0]], tokens[pos[0] + 1]
        pos[0] += 2
        if not (lo < key < hi):
            raise ValueError("search-tree order violated at key %d" % key)
        ls, lh = go(lo, key)
        rs, rh = go(key, hi)
        if size != 1 + ls + rs:
            raise ValueError("cached size %d of key %d differs from real size %d" % (size, key, 1 + ls + rs))
        if ls + rs >= 2 and not ((ls + 1) <= 3 * (rs + 1) and (rs + 1) <= 3 * (ls + 1)):
            raise ValueError("weight balance violated at key %d (%d vs %d)" % (key, ls, rs))
        if (ls + 1) > 3 * (rs + 1) or (rs + 1) > 3 * (ls + 1):
            raise ValueError("weight balance violated at key %d (%d vs %d)" % (key, ls, rs))
        return size, 1 + max(lh, rh)
    try:
        go(-1, 1 << 40)
    except ValueError as ex:
        return str(ex)
    return None


M20 = 1 << 20


def ref_run(seq):
    """Reference semantics over python dicts (property-level oracle for the search)."""
    hs = [dict() for _ in range(4)]
    outs = []

    def opt(v):
        return [0] if v is None else [1, v]
    for op in seq:
        c, a = op[0], op[1:]
        if c == 0:
            r = opt(hs[a[0]].get(a[1])); hs[a[0]][a[1]] = a[2]
        elif c in (1, 12):
            r = opt(hs[a[0]].pop(a[1], None))
        elif c == 2:
            r = opt(hs[a[0]].get(a[1]))
        elif c in (3, 13, 14):
            r = opt(hs[a[0]].get(a[1]))
            if a[1] in hs[a[0]]:
                hs[a[0]][a[1]] = a[2]
        elif c == 4:
            r = [1 if a[1] in hs[a[0]] else 0]
        elif c == 5:
            r = [len(hs[a[0]])]
        elif c == 6:
            r = [1 if not hs[a[0]] else 0]
        elif c == 7:
            hs[a[0]] = {}; r = []
        elif c == 8:
            r = [x for k in sorted(hs[a[0]]) for x in (k, hs[a[0]][k])]
        elif c == 9:
            hs[a[0]] = {k: (v + a[1]) % M20 for k, v in hs[a[0]].items()}; r = []
        elif c in (10, 11):
            hs[a[0]].setdefault(a[1], a[2]); r = [hs[a[0]][a[1]]]
        elif c == 15:
            if a[1] in hs[a[0]]:
                r = [0]
            else:
                hs[a[0]][a[1]] = a[2]; r = [1, a[2]]
        elif c == 16:
            hs[a[1]] = dict(hs[a[0]]); r = []
        elif c == 17:
            x, y = hs[a[1]], hs[a[2]]
            res = {}
            for k in set(x) | set(y):
                if k in x and k in y:
                    res[k] = ((10 * x[k] + y[k] + k) if a[3] == 0 else x[k]) % M20
                else:
                    res[k] = x[k] if k in x else y[k]
            hs[a[0]] = res; r = []
        elif c == 18:
            x, y = hs[a[1]], hs[a[2]]
            res = {}
            for k in x:
                if k in y:
                    if a[3] == 1 or (a[3] >= 2 and k % 2 == 0):
                        res[k] = (10 * x[k] + y[k]) % M20
                else:
                    res[k] = x[k]
            hs[a[0]] = res; r = []
        outs.append((r, [dict(h) for h in hs]))
    return outs


LINE = re.compile(r"^\(Some\[([0-9;]*)\],\[(.*)\]\)$")
ST = re.compile(r"\((\d+),\[((?:\(\d+,\d+\);?)*)\],\[([0-9;]*)\]\)")


def judge_impl(seq, lines):
    """Does the implementation's own output violate the property on this sequence?"""
    ref = ref_run(seq)
    for i, (ln, (r, hs)) in enumerate(zip(lines, ref)):
        m = LINE.match(ln)
        if not m:
            return "unparsable driver line %d: %s" % (i, ln[:80])
        ret = [int(x) for x in m.group(1).split(";") if x]
        if ret != r:
            return "op %d (%s): returned %s, reference map says %s" % (i, op_coq(seq[i]), ret, r)
        sts = ST.findall(m.group(2))
        if len(sts) != 4:
            return "unparsable state in line %d" % i
        for h, (ln_, items, shape) in enumerate(sts):
            kv = [tuple(int(x) for x in it.strip("()").split(",")) for it in items.split(";") if it]
            want = sorted(hs[h].items())
            if kv != want:
                return "op %d (%s): handle %d contains %s, reference map %s" % (i, op_coq(seq[i]), h, kv[:8], want[:8])
            if int(ln_) != len(want):
                return "op %d: handle %d reports len %s but holds %d entries" % (i, h, ln_, len(want))
            why = shape_inv([int(x) for x in shape.split(";") if x])
            if why:
                return "op %d (%s): handle %d: %s" % (i, op_coq(seq[i]), h, why)
    if len(lines) != len(seq):
        return "implementation stopped after %d of %d ops" % (len(lines), len(seq))
    return None


def run_driver(bindir, seqs):
    inp = "\n".join("; ".join(op_rust(o) for o in s) for s in seqs) + "\n"
    p = subprocess.run("ulimit -v 4000000; exec %s/wbt-driver" % bindir, shell=True, input=inp,
                       stdout=subprocess.PIPE, text=True, timeout=1800)
    res, cur, panic = [], None, None
    for line in p.stdout.splitlines():
        if line.startswith("SEQ"):
            cur, panic = [], None
        elif line == "END":
            res.append((cur, panic))
        elif line.startswith("PANIC"):
            panic = line
        else:
            cur.append(line)
    return res


def run_model(ctx, seqs, nshard=16):
    d = os.path.join(VERIF, "coq", "WBT")
    os.makedirs(os.path.join(d, "gen"), exist_ok=True)
    # bound the work of one coqc run (~40k ops), 16 of them at a time
    total_ops = sum(len(s) for s in seqs)
    nshard = max(nshard, (total_ops + 39999) // 40000)
    shards = [list(range(i, len(seqs), nshard)) for i in range(nshard)]

    def one(si):
        idxs = shards[si]
        f = os.path.join(d, "gen", "cases_c14_%d.v" % si)
        with open(f, "w") as fh:
            fh.write("From Coq Require Import NArith List.\nFrom WBT Require Import Model Run.\nImport ListNotations.\n"
                     "Open Scope N_scope.\nSet Printing Width 1000000.\n")
            for i in idxs:
                fh.write("Eval vm_compute in (run_ops [%s]).\n" % "; ".join(op_coq(o) for o in seqs[i]))
        rc, out = sh("coqc -noglob -Q . WBT gen/cases_c14_%d.v" % si, cwd=d, timeout=3000)
        if rc != 0:
            raise RuntimeError("coqc failed: " + tail(out, 10))
        txt = re.sub(r"\s+", "", out)
        parts = txt.split(":listout")[:-1]
        if len(parts) != len(idxs):
            raise RuntimeError("expected %d answers, got %d" % (len(idxs), len(parts)))
        return [(i, p[1:] if p.startswith("=") else p) for i, p in zip(idxs, parts)]

    ctx.checker_cmds.append("cd coq/WBT && coqc -noglob -Q . WBT gen/cases_c14_*.v")
    res = [None] * len(seqs)
    with ThreadPoolExecutor(max_workers=16) as ex:
        for lst in ex.map(one, range(nshard)):
            for i, p in lst:
                res[i] = p
    return res


def run(ctx):
    ctx.trusted = ["coqc 8.16.1 kernel; vm_compute evaluates the model on the op sequences",
                   "harness/wbt-driver + hook WBTreeMap::verif_shape (read-only) + the comparison script",
                   "Rc sharing / copy-on-write is modelled as value semantics: persistence is carried by the "
                   "clone-family correspondence, not by a theorem about Rc"]
    ctx.assumptions = ["usize/u32 overflow not modelled (N)", "partially consumed iterators not modelled",
                       "Mapping nodes (WBTreeMap::mapped) are not reachable from non-test code and are not modelled"]
    ok, _ = ctx.coq_build("WBT")
    if ok:
        ctx.coq_props("WBT", "Props_C14.v", required=REQUIRED)
    bindir = ctx.cargo_build("wbt-driver")
    seqs, n_exh = gen_sequences(ctx)
    ctx.cov["rule"] = ("all op sequences of length <=%d over the 19 op kinds, keys {0,1,2}, 2 handles (exhaustive) "
                       "plus random sequences (length 40/16 keys, 150/200 keys growth-biased, 120/64 keys) on 4 "
                       "handles with clone/union/difference; non-trivial = some handle holds >=3 keys at some point; "
                       "distinct = distinct op sequences" % (2 if ctx.tier == "quick" else 3))
    ctx.cov["exhaustive_sequences"] = n_exh
    ctx.cov["random_sequences"] = len(seqs) - n_exh
    if bindir is None:
        return
    impl = run_driver(bindir, seqs)
    if len(impl) != len(seqs):
        ctx.broken.append("wbt-driver answered %d of %d sequences" % (len(impl), len(seqs)))
        return
    opcount = {}
    maxlen = 0
    for s, (lines, panic) in zip(seqs, impl):
        for o in s:
            opcount[OPS[o[0]][0]] = opcount.get(OPS[o[0]][0], 0) + 1
        big = False
        for ln in lines[-1:]:
            for m in ST.finditer(ln):
                maxlen = max(maxlen, int(m.group(1)))
                big = big or int(m.group(1)) >= 3
        ctx.count("seq", "; ".join(op_rust(o) for o in s) if big else None, big)
    ctx.cov["op_distribution"] = opcount
    ctx.cov["max_map_len_at_end"] = maxlen
    ctx.sample({"ops": "; ".join(op_coq(o) for o in seqs[n_exh][:12]) + " ...", "last_line": impl[n_exh][0][-1][:200]})
    model = None
    if ok:
        try:
            model = run_model(ctx, seqs)
        except Exception as ex:
            ctx.broken.append("model evaluation failed: %s" % str(ex)[:300])
    dis = 0
    for idx, (s, (lines, panic)) in enumerate(zip(seqs, impl)):
        bad = panic is not None
        if model is not None and not bad:
            bad = model[idx] != "[" + ";".join(lines) + "]"
        if model is None or bad:
            why = "implementation panicked: %s" % panic if panic else judge_impl(s, lines)
            if why:
                ctx.violation({"kind": "input", "ops": [op_coq(o) for o in s], "driver_input": "; ".join(op_rust(o) for o in s)}, why)
                dis += 1
            elif bad:
                dis += 1
                ctx.broken.append("correspondence: model and implementation differ (shape or value) on: %s"
                                  % "; ".join(op_rust(o) for o in s)[:300])
            if dis > 3:
                break
    ctx.cov["correspondence"] = {"sequences": len(seqs), "ops": sum(len(s) for s in seqs), "disagreements": dis}
    ctx.obligation("correspondence:wbtree", dis == 0 and model is not None, "%d sequences compared step by step incl. shapes" % len(seqs))
