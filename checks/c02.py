"""C02 - close() derives only what the rules force: the result is the free model.

Deciding method: Coq theorems (coq/Sem: the reference chase result is closed and initial - Sem_chase_closed,
Sem_chase_initial; coq/Engine: every row, merge and created element of every reachable state of the set-level
engine is Derivable - C02_sound) + the verified isomorphism oracle iso_b evaluated in Coq between the
implementation's closed dump and the reference chase of the same asserted facts (handles fixed).
"""
import engine

LEVEL = "proof"
ENGINE_PROPS = [("Props_C02.v", ["C02_sound", "C02_sound_rows", "C02_sound_merged", "C02_sound_created",
                                 "C02_define_no_dup_partial"]),
                ("Props_Least.v", ["Least_close_least", "Least_hom_complete"])]
VARIANTS = ["canon", "closes"]
ISO_WHY = {1: "caller-created elements that the reference keeps apart/equal are equal/apart in the implementation (or vice versa)",
           2: "a function value is forced to two different elements: the implementation's model is not a functional image of the free model",
           3: "the implementation's model contains an element that no term over the asserted facts denotes (or lacks one the reference has)",
           4: "same elements but different tuples: a tuple is missing or was derived without being forced"}


def judge(ctx, results, j, variants_used, stats, tag):
    for res in results:
        if res["status"] != "ok":
            continue
        for fs in res["sets"]:
            dumps, runs = [], []
            for run_ in fs["runs"]:
                if run_["variant"] not in variants_used:
                    continue
                if run_["status"] == "timeout":
                    stats["timeouts"] += 1
                    runs.append(run_)
                    dumps.append(None)
                    continue
                if run_["status"] != "ok":
                    ctx.violation({"kind": "history", "program": res["text"], "calls": run_["calls"], "status": run_["status"]},
                                  "the generated code crashed (%s)" % run_["status"][:80])
                    continue
                runs.append(run_)
                dumps.append(engine.dumps_of(run_, res["prog"])[-1])
            if not runs:
                continue
            good = [(r, d) for r, d in zip(runs, dumps) if d is not None]
            canon = engine.coq_list([engine.progs.call_coq(c) for c in fs["canon"]])
            expr = "iso_codes %d %%P %s %s" % (engine.FUEL, canon, engine.coq_list(
                [engine.canon_structure(d, r["hoe"]) for (r, d) in good]))

            def cb(v, res=res, fs=fs, good=good, runs=runs, dumps=dumps):
                if v == "None":
                    stats["reference_diverged"] += 1
                    return
                stats["fact_sets"] += 1
                codes = v[1]
                if any(d is None for d in dumps):
                    r = [r for r, d in zip(runs, dumps) if d is None][0]
                    ctx.violation({"kind": "history", "program": res["text"], "calls": r["calls"]},
                                  "close() did not return within 20 s although the reference chase of the same facts terminates")
                for (r, d), code in zip(good, codes):
                    stats["dumps"] += 1
                    nontriv = sum(len(x) for x in d["rows"].values()) > len(fs["facts"]["facts"])
                    ctx.count("dump", (res["idx"], str(r["calls"])) if nontriv else None, nontriv)
                    if code != 0:
                        ctx.violation({"kind": "history", "program": res["text"], "calls": r["calls"], "iso_code": code,
                                       "dump": r["lines"][-1], "reference_history": fs["canon"]},
                                      "closed model is not the free model: %s" % ISO_WHY.get(code, code))
            j.ask(res, expr, cb)


def run(ctx):
    ctx.trusted = engine.TRUSTED
    ctx.assumptions = engine.ASSUME + ["programs whose reference chase needs more than %d rounds are skipped (counted)" % engine.FUEL]
    ok_sem, ok_h = engine.build(ctx, ENGINE_PROPS)
    if not ok_h:
        return
    quick = ctx.tier == "quick"
    results = engine.run_programs(ctx, 40 if quick else 200, 3 if quick else 6, VARIANTS, tag="c02")
    ctx.cov["programs"] = engine.status_counts(results)
    engine.describe_program_failures(ctx, results)
    ctx.cov["rule"] = ("as C01; each implementation dump after the final close() is compared, up to an isomorphism fixing caller-created "
                       "elements, with the reference chase (coq/Sem) of the same facts; non-trivial = the closed model has more rows than "
                       "facts were asserted")
    j = engine.Judge(ctx, "c02")
    stats = {"dumps": 0, "timeouts": 0, "reference_diverged": 0, "fact_sets": 0}
    judge(ctx, results, j, VARIANTS, stats, "c02")
    done = j.run() if ok_sem else False
    ctx.cov["runs"] = stats
    for res in results:
        if res["status"] == "ok" and res["sets"] and res["sets"][0]["runs"]:
            r = res["sets"][0]["runs"][0]
            ctx.sample({"program": res["text"], "calls": str(r["calls"])[:400], "dump": (r["lines"] or [""])[-1][:300]})
            break
    ctx.obligation("oracle:iso with reference chase", done and not ctx.violations, "%d dumps compared in Coq" % stats["dumps"])
