"""C03 - incremental closing equals closing from scratch (semi-naive = naive).

Deciding method: Coq theorem C03_close_idem (a clean closed state is a fixed point of the loop, coq/Engine) and the
least-model theorems of coq/Sem; tie: for every fact set several histories (permuted assertions and element creation,
intermediate closes, duplicated assertions) are run on the implementation and each closed dump is compared in Coq,
by the verified iso oracle, with the one reference free model - hence with each other; close() on a closed model
must leave the dump unchanged (exact comparison).
"""
import c02
import engine

LEVEL = "proof"
ENGINE_PROPS = [("Props_C03.v", ["C03_close_idem", "C03_close_idem_inv", "C03_close_twice", "C03_history_indep_partial"]),
                ("Props_Least.v", ["Least_close_least", "Least_hom_complete", "Least_history_indep", "Least_resume_iso"])]
VARIANTS = ["perm", "perm", "closes", "closes", "dups", "twice"]


def run(ctx):
    ctx.trusted = engine.TRUSTED
    ctx.assumptions = engine.ASSUME + ["history independence is proved for the engine model (C03_history_indep_partial via Least_close_least) for histories "
                                       "whose assertions mention only elements created by new_ (AtomsOnly); histories that pass define_ results "
                                       "to later calls are carried by the comparison with the reference free model"]
    ok_sem, ok_h = engine.build(ctx, ENGINE_PROPS)
    if not ok_h:
        return
    quick = ctx.tier == "quick"
    results = engine.run_programs(ctx, 30 if quick else 150, 3 if quick else 6, VARIANTS, tag="c03")
    ctx.cov["programs"] = engine.status_counts(results)
    engine.describe_program_failures(ctx, results)
    ctx.cov["rule"] = ("as C01; per fact set 6 histories (2 permutations, 2 with intermediate closes at random positions, 1 with "
                       "duplicated insert_/equate_ calls, 1 closing twice); every final dump is iso-compared with the reference free "
                       "model of the fact set; non-trivial as in C02")
    j = engine.Judge(ctx, "c03")
    stats = {"dumps": 0, "timeouts": 0, "reference_diverged": 0, "fact_sets": 0, "idempotence_checked": 0}
    c02.judge(ctx, results, j, set(VARIANTS), stats, "c03")
    for res in results:
        if res["status"] != "ok":
            continue
        for fs in res["sets"]:
            for r in fs["runs"]:
                if r["variant"] == "twice" and r["status"] == "ok":
                    ds = [l for l in r["lines"] if l.startswith("D ")]
                    stats["idempotence_checked"] += 1
                    if len(ds) == 2 and ds[0] != ds[1]:
                        ctx.violation({"kind": "history", "program": res["text"], "calls": r["calls"], "first": ds[0], "second": ds[1]},
                                      "close() on a closed model changed the model")
    done = j.run() if ok_sem else False
    ctx.cov["runs"] = stats
    for res in results:
        if res["status"] == "ok" and res["sets"] and len(res["sets"][0]["runs"]) > 2:
            r = res["sets"][0]["runs"][2]
            ctx.sample({"program": res["text"], "calls": str(r["calls"])[:500]})
            break
    ctx.obligation("oracle:all histories iso to one free model", done and not ctx.violations, "%d dumps compared" % stats["dumps"])
