"""CTIE - stand-alone runner of the per-iteration engine tie (checks/engine_tie.py), not a registered property.

    cd /verif && bin/check CTIE quick            (VERIF_TIE_PID=C01|C02|C03|C06|C07 chooses on whose behalf; default: all)

Generated programs x fact sets x histories (creation order / permuted / intermediate closes / close_until runs) as in C01 and
C07; every state in which close_until evaluates its condition is compared with the weighted engine model.
"""
import os

import engine
import engine_tie

LEVEL = "proof"


def run(ctx):
    ctx.trusted = engine.TRUSTED + ["translate/fprog.py, translate/ram.py (emitted rule modules -> fprogram), translate/desc.py (inspection impl, "
                                    "dump parser); the python port of ModelW is a search aid whose output Coq re-checks"]
    ctx.assumptions = engine.ASSUME
    ok_sem, ok_h = engine.build(ctx, [])
    if not ok_h:
        return
    quick = ctx.tier == "quick"
    nprog = int(os.environ.get("VERIF_TIE_NPROG", "0")) or (16 if quick else 120)
    results = engine.run_programs(ctx, nprog, 2 if quick else 4, ["canon", "perm", "closes"], cu=True, tag="ctie")
    ctx.cov["programs"] = engine.status_counts(results)
    ctx.cov["rule"] = ("typed random programs as in C01/C07 (every other one with enums, branch and match), 2 fact sets each, histories: "
                       "creation order, permuted, with intermediate closes, and close_until runs followed by close; per program the "
                       "histories with most close/close_until calls are taken first; non-trivial = some close ran >= 2 iterations")
    engine_tie.engine_tie(ctx, results, os.environ.get("VERIF_TIE_PID", "CTIE"), nprog=nprog)
