"""C12 - incremental builds are never stale, whatever edits and crashes came before.

Deciding method: Coq theorems over all histories / schedules / crash points about a step-level model of the
build protocol (coq/Build), tied to /repo by running the real `eqlog::process` (harness/build-driver, hooks
on, fake rustc) on enumerated histories with a kill before the k-th file-system mutation and comparing the
trace of mutation points, the outcome and the resulting file tree with the model's prediction.
"""
import hashlib
import itertools
import os
import shutil
import subprocess
from concurrent.futures import ProcessPoolExecutor

from common import CACHE, Rng, VERIF, coq_list

LEVEL = "proof"
REQUIRED = ["C12_fresh_after_success", "C12_noop_when_unchanged", "C12_invariant_every_crash_point",
            "C12_invariant_initially", "C12_prune_always_safe"]

HEAD = "type A;\npred p(A);\npred q(A);\n"
RULES = {
    "ra_a": "rule ra { if p(x); then q(x); }\n",
    "ra_b": "rule ra { if q(x); if p(x); then q(x); }\n",
    "rb": "rule rb { if q(x); then p(x); }\n",
    "rc": "rule rc { if p(x); if q(x); then p(x); }\n",
}
NAMES = {"ra": 1, "rb": 2, "rc": 3}
# version id -> source text (None marks a syntax error version)
VERSIONS = [
    HEAD + RULES["ra_a"] + RULES["rb"],                       # 0
    HEAD + RULES["ra_b"] + RULES["rb"],                       # 1: ra changed
    HEAD + RULES["ra_a"],                                     # 2: rb removed
    HEAD + RULES["ra_a"] + RULES["rb"] + RULES["rc"],         # 3: rc added
    HEAD + "rule ra { if p(x) then q(x); }\n",                # 4: syntax error
    HEAD + "pred s(A);\n" + RULES["ra_a"] + RULES["rb"],      # 5: same rules as 0, different theory text
]
BAD = {4}
COMPS = {0: ["ra", "rb"], 1: ["ra", "rb"], 2: ["ra"], 3: ["ra", "rb", "rc"], 5: ["ra", "rb"]}


def runtime_rlib():
    deps = os.path.join(CACHE, "target", "release", "deps")
    c = sorted(f for f in os.listdir(deps) if f.startswith("libeqlog_runtime-") and f.endswith(".rlib"))
    return os.path.join(deps, c[0])


class Env:
    def __init__(self, root, mode):
        self.root = root
        self.mode = mode
        self.ind = os.path.join(root, "in")
        self.out = os.path.join(root, "out")
        self.comp = os.path.join(root, "comp")
        shutil.rmtree(root, ignore_errors=True)
        os.makedirs(self.ind)
        os.makedirs(self.out)
        os.makedirs(self.comp)
        self.trace = os.path.join(root, "trace")

    def edit(self, v):
        with open(os.path.join(self.ind, "t.eql"), "w") as f:
            f.write(VERSIONS[v])

    def build(self, crash=None, fail=""):
        if os.path.exists(self.trace):
            os.remove(self.trace)
        env = dict(os.environ, EQLOG_VERIF_TRACE=self.trace, RAYON_NUM_THREADS="1", FAKE_RUSTC_FAIL=fail)
        env.pop("EQLOG_VERIF_CRASH_AT", None)
        env.pop("EQLOG_VERIF_TORN", None)
        if crash is not None:
            env["EQLOG_VERIF_CRASH_AT"] = str(crash[0])
            if crash[1]:
                env["EQLOG_VERIF_TORN"] = "1"
        exe = os.path.join(CACHE, "target", "release", "build-driver")
        if self.mode == "module":
            cmd = [exe, "module", self.ind, self.out]
        else:
            cmd = [exe, "component", self.ind, self.out, self.comp,
                   os.path.join(VERIF, "harness", "build-driver", "fake_rustc.sh"), runtime_rlib()]
        p = subprocess.run(cmd, env=env, stdout=subprocess.DEVNULL, stderr=subprocess.DEVNULL, timeout=120)
        lines = open(self.trace).read().splitlines() if os.path.exists(self.trace) else []
        pts = []
        for ln in lines:
            n, name, path = ln.split(" ", 2)
            pts.append((name, os.path.basename(path)))
        if p.returncode == 0:
            outcome = "Success"
        elif p.returncode == 1:
            outcome = "Failed"
        elif p.returncode < 0:
            outcome = "Crashed"
            pts = pts[:-1]   # the last announced point was not performed
        else:
            outcome = "Exit%d" % p.returncode
        return outcome, pts

    def tree(self):
        files = {}
        m = os.path.join(self.out, "t.eql.rs")
        if os.path.exists(m):
            files["t.eql.rs"] = open(m, "rb").read()
        d = os.path.join(self.comp, "t.eql")
        if os.path.isdir(d):
            for f in sorted(os.listdir(d)):
                files[f] = open(os.path.join(d, f), "rb").read()
        return files


def key_of(fname):
    if fname == "t.eql.rs":
        return (0, 0)
    if fname == "t.digest":
        return (1, 0)
    base = fname
    if base.startswith("lib") and base.endswith(".rlib"):
        return (3, NAMES[base[len("libeql_1_t_"):-len(".rlib")]])
    if base.endswith(".digest"):
        return (4, NAMES[base[len("eql_1_t_"):-len(".digest")]])
    if base.endswith(".rs"):
        return (2, NAMES[base[len("eql_1_t_"):-len(".rs")]])
    raise ValueError(fname)


def reference(scratch):
    """Clean builds of every good version in both modes: the byte contents every intact file can have."""
    ref = {"module": {}, "component": {}}
    srcid = {}
    decls = {}
    for mode in ("module", "component"):
        for v in range(len(VERSIONS)):
            if v in BAD:
                continue
            e = Env(os.path.join(scratch, "ref-%s-%d" % (mode, v)), mode)
            e.edit(v)
            if mode == "module":
                # capture the module text before the digest line is appended
                out, _ = e.build(crash=(2, False))
                assert out == "Crashed", out
                ref[mode][("pre", v)] = e.tree()["t.eql.rs"]
            out, pts = e.build()
            assert out == "Success", (mode, v, out)
            t = e.tree()
            ref[mode][("tree", v)] = t
            if mode == "component":
                comps = []
                for c in COMPS[v]:
                    src = t["eql_1_t_%s.rs" % c]
                    sid = srcid.setdefault((c, src), len(srcid) + 1)
                    comps.append((NAMES[c], sid))
                decls[v] = comps
            shutil.rmtree(e.root, ignore_errors=True)
    return ref, srcid, decls


def encode_tree(mode, files, ref, srcid):
    """-> sorted list of ((kind,name),(tag,x)) as the model prints it."""
    out = []
    for fname, data in files.items():
        k = key_of(fname)
        tag, x = 1, 0
        if k == (0, 0):
            for v in range(len(VERSIONS)):
                if v in BAD:
                    continue
                if mode == "module":
                    if data == ref["module"][("tree", v)]["t.eql.rs"]:
                        tag, x = 3, v
                    elif data == ref["module"][("pre", v)]:
                        tag, x = 2, v
                elif data == ref["component"][("tree", v)]["t.eql.rs"]:
                    tag, x = 2, v
        elif k == (1, 0):
            for v in range(len(VERSIONS)):
                if v not in BAD and data == ref["component"][("tree", v)]["t.digest"]:
                    tag, x = 2, v
        else:
            kind, name = k
            cname = [c for c, n in NAMES.items() if n == name][0]
            for (c, src), sid in srcid.items():
                if c != cname:
                    continue
                if kind == 2 and data == src:
                    tag, x = 2, sid
                if kind == 3 and data == b"RLIB\n" + src:
                    tag, x = 2, sid
                if kind == 4 and data == hashlib.sha256(b"").digest():  # never
                    pass
            if kind == 4:
                for v in range(len(VERSIONS)):
                    if v in BAD:
                        continue
                    t = ref["component"][("tree", v)]
                    dn = "eql_1_t_%s.digest" % cname
                    if dn in t and data == t[dn]:
                        tag, x = 2, srcid[(cname, t["eql_1_t_%s.rs" % cname])]
        out.append((k, (tag, x)))
    order = {0: 0, 1: 1}
    out.sort(key=lambda e: (0, 0, 0) if e[0] == (0, 0) else (1, 0, 0) if e[0] == (1, 0) else (2, e[0][1], e[0][0]))
    return out


def run_history(args):
    idx, mode, hist, scratch = args
    e = Env(os.path.join(scratch, "h%d" % idx), mode)
    e.edit(0)
    builds = []
    for ev in hist:
        if ev[0] == "E":
            e.edit(ev[1])
        else:
            builds.append(e.build(crash=ev[1], fail=ev[2]))
    files = e.tree()
    shutil.rmtree(e.root, ignore_errors=True)
    return idx, builds, files


def gen_histories(ctx, mode):
    rng = Rng(ctx.seed).fork(mode)
    quick = ctx.tier == "quick"
    vs = list(range(len(VERSIONS)))
    hs = []
    kmax = 4 if mode == "module" else 15
    firsts = [3] if quick else vs
    lasts = [0, 2, 5] if quick else vs
    for a in firsts:
        for b in vs:
            for k in range(kmax):
                for torn in (False, True):
                    for c in sorted(set(lasts + [b])):     # incl. rebuilding the very version whose build was killed
                        hs.append([("E", a), ("B", None, ""), ("E", b), ("B", (k, torn), ""), ("E", c), ("B", None, "")])
    n_enum = len(hs)
    if mode == "component":
        for a in firsts:
            for b in vs:
                for comp in ("ra", "rb", "rc"):
                    for torn in (False, True):
                        for c in sorted(set(lasts + [b])):   # incl. retrying the same version after rustc failed
                            f = "eql_1_t_%s%s" % (comp, ":torn" if torn else "")
                            hs.append([("E", a), ("B", None, ""), ("E", b), ("B", None, f), ("E", c), ("B", None, "")])
    nrand = 100 if quick else 5000
    for _ in range(nrand):
        h = []
        for _ in range(3 + rng.below(3)):
            h.append(("E", rng.choice(vs)))
            r = rng.below(10)
            if r < 5:
                h.append(("B", (rng.below(kmax), rng.chance(1, 2)), ""))
            elif r < 7 and mode == "component":
                h.append(("B", None, "eql_1_t_%s%s" % (rng.choice(["ra", "rb", "rc"]), rng.choice(["", ":torn"]))))
            else:
                h.append(("B", None, ""))
        h.append(("B", None, ""))
        hs.append(h)
    return hs, n_enum


def coq_history(hist, builds, decls_l):
    evs = []
    bi = 0
    for ev in hist:
        if ev[0] == "E":
            evs.append("REdit %d" % ev[1])
        else:
            _, pts = builds[bi]
            bi += 1
            prune = [key_of(f) for (name, f) in pts if name == "remove_stale_component_file"]
            prune_c = coq_list(prune, lambda k: "%s %d" % ({2: "CompSrc", 3: "CompLib", 4: "CompDigest"}[k[0]], k[1]))
            fails = []
            for f in ev[2].split():
                nm = f.split(":")[0][len("eql_1_t_"):]
                fails.append("(%d, %s)" % (NAMES[nm], "true" if f.endswith(":torn") else "false"))
            sched = "mkSched [] %s %s" % (prune_c, coq_list(fails))
            crash = "None" if ev[1] is None else "Some (%d, %s)" % (ev[1][0], "true" if ev[1][1] else "false")
            evs.append("RBuild (%s) (%s)" % (sched, crash))
    return "run_hist %%MODE%% decls %s" % coq_list(evs)


def check_mode(ctx, mode, scratch, ref, srcid, decls, coq_ok):
    hs, n_enum = gen_histories(ctx, mode)
    with ProcessPoolExecutor(max_workers=16) as ex:
        results = list(ex.map(run_history, [(i, mode, h, scratch) for i, h in enumerate(hs)], chunksize=8))
    decl_terms = []
    for v in range(len(VERSIONS)):
        if v in BAD:
            decl_terms.append("None")
        else:
            decl_terms.append("Some %s" % coq_list(decls[v], lambda c: "(%d, %d, 0)" % c))
    header = ("Require Import List NArith. Import ListNotations.\nRequire Import Build.Model Build.Run.\n"
              "Open Scope N_scope.\nDefinition decls : list version_decl := %s." % coq_list(decl_terms))
    outcomes = {}
    nbuilds = 0
    viol = 0
    # property-level judgement on the implementation alone (search oracle): a final Success must equal a clean build
    for (idx, builds, files), h in zip(results, hs):
        cur = [ev[1] for ev in h if ev[0] == "E"][-1]
        for b in builds:
            outcomes[b[0]] = outcomes.get(b[0], 0) + 1
            nbuilds += 1
        nontriv = any(ev[0] == "B" and (ev[1] is not None or ev[2]) for ev in h)
        ctx.count("hist", "%s:%s" % (mode, h) if nontriv else None, nontriv)
        if builds[-1][0] == "Success" and cur not in BAD:
            want = ref[mode][("tree", cur)]
            if files != want and viol < 3:
                viol += 1
                diff = sorted(set(files) ^ set(want)) + [f for f in files if f in want and files[f] != want[f]]
                ctx.violation({"kind": "history", "mode": mode, "history": h, "differing_files": diff},
                              "after a successful %s build of version %d the output differs from a clean build in %s" % (mode, cur, diff))
        # no-op claim: a build right after a successful build of the same version performs no mutation
        cur_v, last_ok = 0, None
        bi = 0
        for ev in h:
            if ev[0] == "E":
                cur_v = ev[1]
            else:
                out, pts = builds[bi]
                bi += 1
                if last_ok == cur_v and pts and viol < 3:
                    viol += 1
                    ctx.violation({"kind": "history", "mode": mode, "history": h},
                                  "a build directly after a successful build of the same version rewrote %s" % pts[:3])
                last_ok = cur_v if out == "Success" else None
    ctx.cov.setdefault("impl_build_outcomes", {})[mode] = outcomes
    ctx.cov.setdefault("histories", {})[mode] = {"enumerated": n_enum, "total": len(hs), "builds": nbuilds}
    ctx.sample({"mode": mode, "history": str(hs[n_enum // 2]), "builds": str(results[n_enum // 2][1])[:400]})
    if not coq_ok:
        return
    nshard = 16
    exprs = [coq_history(h, r[1], decls).replace("%MODE%", "ModuleMode" if mode == "module" else "ComponentMode")
             for h, r in zip(hs, results)]
    shards = [exprs[i::nshard] for i in range(nshard)]
    try:
        vals = ctx.coq_eval("Build", "c12_%s" % mode, [[coq_list(s)] for s in shards], header)
    except Exception as ex:
        ctx.broken.append("model evaluation failed (%s): %s" % (mode, str(ex)[:300]))
        return
    dis = 0
    for i, (h, r) in enumerate(zip(hs, results)):
        mv = vals[i % nshard][0][i // nshard]
        mfiles, mbuilds, mlinked = mv
        mfiles = [((a, b), (c, d)) for (a, b, (c, d)) in mfiles]
        ifiles = encode_tree(mode, r[2], ref, srcid)
        ibuilds = [(o, len(p), [(nm, key_of(f)) for (nm, f) in p]) for (o, p) in r[1]]
        mb = [(o, n, [(lb, tuple(k)) for (lb, k) in lbls]) for (o, n, _safe, lbls) in mbuilds]
        ilinked = sorted(k[1] for (k, _) in ifiles if k[0] == 3)
        if mfiles != ifiles or mb != ibuilds or (mode == "component" and list(mlinked) != ilinked):
            dis += 1
            if dis <= 3:
                what = "files" if mfiles != ifiles else "build traces" if mb != ibuilds else "linked"
                ctx.broken.append("correspondence (%s): model and implementation differ in %s on history %s; model=%s impl=%s"
                                  % (mode, what, h, (mfiles, mb)[what != "files"], (ifiles, ibuilds)[what != "files"]))
    ctx.cov.setdefault("correspondence", {})[mode] = {"histories": len(hs), "disagreements": dis}
    ctx.obligation("correspondence:build-%s" % mode, dis == 0, "%d histories: traces of mutation points, outcomes and final trees equal" % len(hs))


def run(ctx):
    ctx.trusted = ["coqc 8.16.1 kernel; vm_compute evaluates the model on histories",
                   "harness/build-driver (real eqlog::process, hook verif_fs::point behind feature verif), fake rustc script",
                   "crashes are process kills before a mutation (optionally a torn write); fsync/power loss not modelled"]
    ctx.assumptions = ["distinct component names per version (instance obligation C13)", "rustc replaced by a fake that copies the source",
                       "one build mode per output directory"]
    ok, _ = ctx.coq_build("Build")
    if ok:
        ctx.coq_props("Build", "Props_C12.v", required=REQUIRED)
    if ctx.cargo_build("build-driver") is None or ctx.cargo_build("rt-driver") is None:
        return
    scratch = os.path.join(CACHE, "scratch", "c12-%d" % os.getpid())
    os.makedirs(scratch, exist_ok=True)
    try:
        ref, srcid, decls = reference(scratch)
        ctx.cov["rule"] = ("histories Edit a; Build; Edit b; Build killed before mutation k (plain and torn) | rustc failing on one "
                           "component; Edit c; Build over 6 versions of one theory (rule changed / removed / added / syntax error / "
                           "same rules with different theory text), both build modes, plus random longer histories; non-trivial = "
                           "contains a crash or a failing rustc; distinct = distinct histories")
        for mode in ("component", "module"):
            check_mode(ctx, mode, scratch, ref, srcid, decls, ok)
    finally:
        shutil.rmtree(scratch, ignore_errors=True)
