"""Per-program instance obligations about the emitted rule functions (library module, imported by checks).

    ram_obligations(ctx, comp_dirs, pid_for_violation=None, texts=None, build=True) -> summary dict

For every rule function of every component file below the given component output directories
(`<comp_dir>/<file>.eql/eql_<n>_<theory>_<group>.rs`, written by the real compiler in component mode):
  * translate/ram.py parses the emitted text (strict; an unknown line is a broken tie, reported in ctx.broken),
  * the Gallina term goes to coqc:  Ram.Run.check_rule_fn = (wf_scoped, ram_matches_flat),
  * one obligation `ram:<theory>:<fn>` is recorded; Props_Ram.C09_wf_scoped_progress / C01_ram_matches_flat_sound /
    C16_ram_matches_flat_sound_once are what a `true` means,
  * on a `false` the function is reported in ctx.broken and a concrete table state on which the nested loops and
    the flat rule disagree is searched in python (`find_disagreement`: a direct interpreter of the parsed text
    against a naive join); if one is found and `pid_for_violation` is given it is written as a violation replay.
`comp_dirs`: list of paths, or of (program name, comp_dir) pairs. `texts`: {program name: .eql source} for replays.

`python3 checks/ram_obligations.py` (self-test): compiles all theories of eqlog-test-eval + 30 generated programs and
prints a summary (functions parsed / accepted / rejected with reason).
"""
import itertools
import os
import sys

if __name__ == "__main__":
    _V = os.path.dirname(os.path.dirname(os.path.abspath(__file__)))
    for _p in (os.path.join(_V, "lib"), os.path.join(_V, "gen"), _V):
        if _p not in sys.path:
            sys.path.insert(0, _p)

from common import Rng
from translate import ram as tr

HEADER = ("From Coq Require Import List NArith Bool.\nImport ListNotations.\n"
          "From Ram Require Import Model Run.")
REQUIRED = ["C09_wf_scoped_progress", "C01_ram_matches_flat_sound", "C01_ram_matches_flat_sound_envs",
            "C16_ram_matches_flat_sound_once", "C01_rule_fn_correct", "Ram_index_rows_coherent", "Ram_index_rows_sorted",
            "Ram_atom_link"]
NSHARD = 16


# ------------------------------------------------------------------------------------------ python interpreter
class Stuck(Exception):
    pass


def _atom_key(kind, name):
    return (kind, tr.norm_name(name))


def _field_key(fn, field):
    p = tr.parse_field(field)
    if p is None:
        raise Stuck("env.%s is not an index field" % field)
    kind = fn.get("field_kinds", {}).get(field, "rel")
    return (kind, tr.norm_name(p["rel"])), p


def _reps(eqs):
    return [i for i, e in enumerate(eqs) if e == i]


def index_rows(tables, key, p):
    """Sorted duplicate-free rows that the index field denotes (= Ram.Model.index_rows)."""
    out = set()
    for r in tables.get((key, p["age"]), ()):
        if p["diag"] is not None:
            if len(r) != len(p["diag"]) or any(r[i] != r[e] for i, e in enumerate(p["diag"])):
                continue
            r = tuple(r[c] for c in _reps(p["diag"]))
        if len(r) != len(p["order"]):
            continue
        out.add(tuple(r[c] for c in p["order"]))
    return sorted(out)


def run_loops(fn, tables):
    """Pushes of the emitted statements on a table state, in emission order: [(out field, tuple)]."""
    out = []

    def restrict(rows, v):
        return [r[1:] for r in rows if r and r[0] == v]

    def block(stmts, el, sets):
        el, sets = dict(el), dict(sets)
        for st in stmts:
            if st[0] == "def":
                _, target, _lazy, e = st
                if e[0] == "index":
                    if e[1] not in dict(fn["env_fields"]["in"]):
                        raise Stuck("env.%s is not declared" % e[1])
                    key, p = _field_key(fn, e[1])
                    sets[target] = index_rows(tables, key, p)
                else:
                    if e[1] not in sets or e[2] not in el:
                        raise Stuck("%s or %s is not in scope" % (e[1], e[2]))
                    sets[target] = restrict(sets[e[1]], el[e[2]])
            elif st[0] == "iter":
                _, ss, var, loop_set, body = st
                for s in ss:
                    if s not in sets:
                        raise Stuck("%s is not in scope" % s)
                for s in ss:
                    heads = []
                    for r in sets[s]:
                        if r and r[0] not in heads:
                            heads.append(r[0])
                    for v in heads:
                        e2, s2 = dict(el), dict(sets)
                        e2[var] = v
                        s2[loop_set] = restrict(sets[s], v)
                        block(body, e2, s2)
            elif st[0] == "guard":
                _, ss, body = st
                for s in ss:
                    if s not in sets:
                        raise Stuck("%s is not in scope" % s)
                if any(len(sets[s]) > 0 for s in ss):
                    block(body, el, sets)
            else:
                _, field, args = st
                for a in args:
                    if a not in el:
                        raise Stuck("%s is not in scope" % a)
                out.append((field, tuple(el[a] for a in args)))
    block(fn["ram"], {}, {})
    return out


def _full_args(diag, args):
    if diag is None:
        return list(args)
    reps = _reps(diag)
    return [args[reps.index(e)] if e in reps and reps.index(e) < len(args) else None for e in diag]


def run_flat(fn, tables):
    """Pushes that the flat rule of the comment demands: every match (assignment of the premise variables such that
    every atom is a row of its relation with the stated age) once, conclusions in order. [(out key, tuple)]"""
    kinds = tr.atom_kinds(fn)
    matches = [{}]
    for k, (rel, diag, args, age) in enumerate(fn["flat"]["premise"]):
        key = _atom_key(kinds[k], rel[:-3] if kinds[k] == "ty" else rel)
        full = _full_args(diag, args)
        rows = set()
        for a in (("new", "old") if age == "all" else (age,)):
            rows |= set(tables.get((key, a), ()))
        nxt = []
        for m in matches:
            for r in sorted(rows):
                if len(r) != len(full):
                    continue
                m2 = dict(m)
                ok = True
                for v, x in zip(full, r):
                    if v is None or m2.setdefault(v, x) != x:
                        ok = False
                        break
                if ok:
                    nxt.append(m2)
        # one assignment once (a row that is new and old would otherwise count twice; tables are disjoint anyway)
        seen, matches = set(), []
        for m in nxt:
            t = tuple(sorted(m.items()))
            if t not in seen:
                seen.add(t)
                matches.append(m)
    out = []
    for m in matches:
        for (kind, name, args) in fn["flat"]["conclusion"]:
            if any(a not in m for a in args):
                raise Stuck("conclusion variable not bound by the premise")
            out.append(((kind, tr.norm_name(name)), tuple(m[a] for a in args)))
    return out


def _out_key(field):
    o = tr.parse_out_field(field)
    return (o[0], tr.norm_name(o[1])) if o else ("?", field)


def relation_arities(fn):
    """{(kind, name): arity of the base relation} from the comment atoms and from every env field the code reads."""
    ar = {}
    kinds = tr.atom_kinds(fn)

    def put(key, n):
        if ar.setdefault(key, n) != n:
            raise Stuck("relation %s is used with arities %d and %d" % (key, ar[key], n))
    for k, (rel, diag, args, _age) in enumerate(fn["flat"]["premise"]):
        put(_atom_key(kinds[k], rel[:-3] if kinds[k] == "ty" else rel), len(diag) if diag is not None else len(args))

    def walk(stmts):
        for st in stmts:
            if st[0] == "def" and st[3][0] == "index":
                key, p = _field_key(fn, st[3][1])
                put(key, len(p["diag"]) if p["diag"] is not None else len(p["order"]))
            elif st[0] == "iter":
                walk(st[4])
            elif st[0] == "guard":
                walk(st[2])
    walk(fn["ram"])
    return ar


def find_disagreement(fn, rng, tries=400):
    """Search a small table state (elements 0..2, new and old rows disjoint) on which the emitted loops and the flat
    rule disagree. -> None | dict(tables, loops, flat, kind)."""
    try:
        ar = relation_arities(fn)
    except Stuck as ex:
        return {"kind": "unreadable", "detail": str(ex)}
    keys = sorted(ar)
    for t in range(tries):
        univ = 2 if t < tries // 3 else 3
        tables = {}
        for key in keys:
            rows = list(itertools.product(range(univ), repeat=ar[key]))
            for r in rows:
                c = rng.below(10)
                if c < 3:
                    tables.setdefault((key, "new"), set()).add(r)
                elif c < 6:
                    tables.setdefault((key, "old"), set()).add(r)
        try:
            loops = [(_out_key(f), r) for (f, r) in run_loops(fn, tables)]
        except Stuck as ex:
            return {"kind": "stuck", "detail": str(ex), "tables": _tables_json(tables)}
        try:
            flat = run_flat(fn, tables)
        except Stuck as ex:
            return {"kind": "unreadable", "detail": str(ex)}
        if set(loops) != set(flat):
            kind = "missing conclusions" if set(flat) - set(loops) else "extra conclusions"
        elif sorted(loops) != sorted(flat):
            kind = "a match is enumerated more than once"
        else:
            continue
        return {"kind": kind, "tables": _tables_json(tables), "loops_push": sorted(map(_push_json, loops)),
                "flat_rule_demands": sorted(map(_push_json, flat)),
                "missing": sorted(map(_push_json, set(flat) - set(loops))), "extra": sorted(map(_push_json, set(loops) - set(flat)))}
    return None


def _tables_json(tables):
    return {"%s:%s[%s]" % (k[0][0], k[0][1], k[1]): sorted(list(r) for r in v) for k, v in sorted(tables.items())}


def _push_json(p):
    return "%s:%s(%s)" % (p[0][0], p[0][1], ",".join(str(x) for x in p[1]))


def explain_rejection(fn):
    """A python-level guess at WHY the validator says false (the verdict itself is coqc's)."""
    why = []
    kinds = tr.atom_kinds(fn)
    prem = fn["flat"]["premise"]
    reads = {}

    def walk(stmts):
        for st in stmts:
            if st[0] == "def" and st[3][0] == "index":
                reads.setdefault(int(tr.SET_RE.match(st[1]).group("k")), []).append(st[3][1])
            elif st[0] == "iter":
                walk(st[4])
            elif st[0] == "guard":
                walk(st[2])
    walk(fn["ram"])
    for k, (rel, diag, args, age) in enumerate(prem):
        fields = reads.get(k, [])
        ages = sorted((tr.parse_field(f) or {}).get("age", "?") for f in fields)
        want = {"new": ["new"], "old": ["old"], "all": ["new", "old"]}[age]
        if ages != want:
            why.append("atom %d %s(%s) [%s] reads %s" % (k, rel, ", ".join(args), age, fields))
        for f in fields:
            p = tr.parse_field(f)
            if p is None:
                continue
            base = rel[:-3] if kinds[k] == "ty" else rel
            if tr.norm_name(p["rel"]) != tr.norm_name(base):
                why.append("atom %d is %s, the code reads table %s" % (k, rel, f))
            if p["diag"] != diag:
                why.append("atom %d has diagonal %s, index %s" % (k, diag, f))
            if sorted(p["order"]) != list(range(len(args))):
                why.append("atom %d has %d arguments, index order of %s" % (k, len(args), f))
    for k in reads:
        if k >= len(prem):
            why.append("set variables of position %d, the premise has %d atoms" % (k, len(prem)))
    def walk_bind(stmts, bound):
        bound = set(bound)
        for st in stmts:
            if st[0] == "iter":
                if st[2] in bound:
                    why.append("variable %s is bound again by an iteration (shadowing): its repeated occurrence is not enforced" % st[2])
                walk_bind(st[4], bound | {st[2]})
            elif st[0] == "guard":
                walk_bind(st[2], bound)
    walk_bind(fn["ram"], set())
    pushes = []

    def walk2(stmts):
        for st in stmts:
            if st[0] == "push":
                pushes.append((_out_key(st[1]), tuple(st[2])))
            elif st[0] == "iter":
                walk2(st[4])
            elif st[0] == "guard":
                walk2(st[2])
    walk2(fn["ram"])
    want = [((kind, tr.norm_name(name)), tuple(args)) for (kind, name, args) in fn["flat"]["conclusion"]]
    if pushes != want:
        why.append("pushes %s, conclusions %s" % (pushes, want))
    return why or ["bound columns are not a prefix of the index order, a restriction or guard is missing, or the "
                   "statements are out of scope order (see the Coq term)"]


# ------------------------------------------------------------------------------------------------- the obligation
def _programs(comp_dirs):
    out = []
    for c in comp_dirs:
        if isinstance(c, (tuple, list)):
            out.append((c[0], c[1]))
        else:
            out.append((os.path.basename(os.path.dirname(os.path.abspath(c))) or c, c))
    return out


def translate_all(ctx, comp_dirs):
    """-> (cases [(prog, fn dict, coq term)], per-file parse errors [(prog, message)], stmt statistics)."""
    cases, errors, stats = [], [], {}
    for prog, cdir in _programs(comp_dirs):
        for path in tr.component_files(cdir):
            try:
                fns = tr.parse_component_file(path)
                tr.annotate_field_kinds(fns)
                names = tr.Interner()
                terms = [tr.to_coq(fn, names) for fn in fns]
            except tr.RamParseError as ex:
                errors.append((prog, str(ex)))
                continue
            for fn, term in zip(fns, terms):
                if fn["called"] != 1:
                    errors.append((prog, "%s: rule fn %s is called %d times by the exported fn" % (path, fn["name"], fn["called"])))
                for k, v in tr.count_stmts(fn["ram"]).items():
                    stats[k] = stats.get(k, 0) + v
                cases.append((prog, fn, term))
    return cases, errors, stats


def ram_obligations(ctx, comp_dirs, pid_for_violation=None, texts=None, build=True, tag=None):
    tag = tag or "ram_%s" % ctx.pid.lower()
    summary = {"functions": 0, "accepted": 0, "rejected": [], "parse_errors": [], "stmts": {}}
    if build:
        ok, _ = ctx.coq_build("Ram")
        if not ok:
            return summary
        ctx.coq_props("Ram", "Props_Ram.v", required=REQUIRED)
    cases, errors, stats = translate_all(ctx, comp_dirs)
    summary["functions"] = len(cases)
    summary["stmts"] = stats
    summary["parse_errors"] = errors
    for prog, msg in errors:
        ctx.obligation("ram-translate:%s" % prog, False, msg[:300])
        ctx.broken.append("translate/ram.py cannot read the emitted rule module of %s: %s" % (prog, msg[:300]))
    if not cases:
        return summary
    nshard = min(NSHARD, len(cases))
    # big terms first, dealt round-robin, so that the shards are balanced
    order = sorted(range(len(cases)), key=lambda i: -len(cases[i][2]))
    shards = [order[i::nshard] for i in range(nshard)]
    bodies = [["check_rule_fns [%s]" % ";\n ".join(cases[i][2] for i in s)] for s in shards]
    try:
        res = ctx.coq_eval("Ram", tag, bodies, HEADER, timeout=1800)
    except Exception as ex:                                   # noqa: BLE001 - reported, not swallowed
        ctx.broken.append("coqc failed on the rule-function cases: %s" % str(ex)[:400])
        ctx.obligation("ram-eval", False, str(ex)[:300])
        return summary
    verdict = {}
    for s, val in zip(shards, res):
        vals = val[0]
        if len(vals) != len(s):
            ctx.broken.append("coqc answered %d of %d rule-function cases" % (len(vals), len(s)))
            return summary
        for i, v in zip(s, vals):
            verdict[i] = (v[0] == "true", v[1] == "true")
    rng = Rng(ctx.seed).fork("ram-search")
    nviol = 0
    for i, (prog, fn, _term) in enumerate(cases):
        wf, ok = verdict[i]
        name = "ram:%s:%s" % (fn["theory"] if fn["theory"] else prog, fn["name"])
        n = tr.count_stmts(fn["ram"])
        ctx.obligation(name, wf and ok, "wf_scoped=%s ram_matches_flat=%s (%d atoms; %d iter, %d guard, %d restrict)" % (
            wf, ok, len(fn["flat"]["premise"]), n["iter"], n["guard"], n["def_restrict"]))
        nontriv = len(fn["flat"]["premise"]) >= 2
        ctx.count("rule_fn", "%s/%s" % (prog, fn["name"]) if nontriv else None, nontriv)
        if wf and ok:
            summary["accepted"] += 1
            continue
        why = explain_rejection(fn) if not ok else ["a variable, set or env field is used out of scope, or an arity does not fit"]
        wit = find_disagreement(fn, rng.fork(name))
        rec = {"program": prog, "fn": fn["name"], "file": os.path.basename(fn["file"]), "wf_scoped": wf, "ram_matches_flat": ok,
               "reason": why[:4], "disagreement": wit}
        summary["rejected"].append(rec)
        what = "rule fn %s of %s (%s): wf_scoped=%s ram_matches_flat=%s: %s" % (
            fn["name"], prog, os.path.basename(fn["file"]), wf, ok, "; ".join(why[:2]))
        if wit and wit.get("tables") is not None:
            what += "; on tables %s the loops push %s, the flat rule demands %s" % (
                wit["tables"], wit.get("loops_push", wit.get("detail")), wit.get("flat_rule_demands", "-"))
        ctx.broken.append(what[:1200])
        if pid_for_violation and wit and wit.get("kind") not in (None, "unreadable") and nviol < 3:
            nviol += 1
            ctx.violation({"property": pid_for_violation, "kind": "rule_fn", "program": prog,
                           "program_text": (texts or {}).get(prog), "component_file": os.path.basename(fn["file"]),
                           "rule_fn": fn["name"], "flat_rule": fn["flat"], "reason": why[:4], "disagreement": wit},
                          what[:600])
    ctx.cov.setdefault("ram_obligations", {}).update({
        "rule_functions": len(cases), "accepted": summary["accepted"], "rejected": len(summary["rejected"]),
        "translator_errors": len(errors), "statements": stats})
    return summary


# ------------------------------------------------------------------------------------------------------ self-test
def _selftest_corpus(scratch, n_gen=30, exe=None):
    """Compile the corpus in component mode. -> ([(name, comp_dir)], {name: text}, rejected names)."""
    import shutil
    from concurrent.futures import ThreadPoolExecutor
    import progs
    from translate import corpus
    if exe is not None:
        corpus.EXE = exe
    programs = list(corpus.seed_programs("Ram")) + list(corpus.repo_programs())
    rng = Rng(int(os.environ.get("VERIF_SEED", "1") or 1)).fork("ram-selftest")
    n = i = 0
    while n < n_gen and i < 20 * n_gen:
        p = progs.ProgGen(rng.fork("p%d" % i)).gen()
        i += 1
        if p is None:
            continue
        programs.append(("g" + progs.suffix(n), progs.prog_eql(p), "generated"))
        n += 1
    shutil.rmtree(scratch, ignore_errors=True)
    os.makedirs(scratch)

    def one(p):
        return corpus.build("component", p[0], p[1], os.path.join(scratch, p[0]), threads=1)
    with ThreadPoolExecutor(max_workers=16) as ex:
        res = list(ex.map(one, programs))
    dirs, texts, rejected = [], {}, []
    for p, r in zip(programs, res):
        if r["rc"] != 0:
            rejected.append((p[0], r["stderr"][:120].replace("\n", " ")))
            continue
        dirs.append((p[0], os.path.join(scratch, p[0], "comp")))
        texts[p[0]] = p[1]
    return dirs, texts, rejected


def main(argv):
    import shutil
    import time
    from common import CACHE, Ctx
    exe = None
    if len(argv) > 1 and argv[1] == "--build-driver":
        exe = argv[2]
    ctx = Ctx("RAM", "selftest", "proof")
    scratch = os.path.join(CACHE, "scratch", "ram-selftest-%d" % os.getpid())
    t0 = time.time()
    try:
        dirs, texts, rejected = _selftest_corpus(scratch, exe=exe)
        t1 = time.time()
        s = ram_obligations(ctx, dirs, pid_for_violation=None, texts=texts)
    finally:
        shutil.rmtree(scratch, ignore_errors=True)
    print("programs compiled: %d (rejected by the compiler: %s); compile %.1fs, translate+coqc %.1fs" % (
        len(dirs), [r[0] for r in rejected] or "none", t1 - t0, time.time() - t1))
    print("rule functions parsed: %d, accepted (wf_scoped and ram_matches_flat): %d, rejected: %d, translator errors: %d" % (
        s["functions"], s["accepted"], len(s["rejected"]), len(s["parse_errors"])))
    print("statements: %s" % s["stmts"])
    for e in s["parse_errors"][:10]:
        print("  TRANSLATOR: %s: %s" % e)
    for r in s["rejected"][:20]:
        print("  REJECTED %s/%s wf_scoped=%s ram_matches_flat=%s: %s" % (r["program"], r["fn"], r["wf_scoped"], r["ram_matches_flat"], "; ".join(r["reason"][:2])))
        w = r["disagreement"]
        if w:
            print("     %s: tables %s\n       loops push %s\n       flat rule  %s" % (w.get("kind"), w.get("tables"), w.get("loops_push", w.get("detail")), w.get("flat_rule_demands")))
    bad = [o for o in ctx.obligations if not o[1]]
    print("obligations: %d, failed: %d%s" % (len(ctx.obligations), len(bad), "" if not bad else " (%s ...)" % bad[0][0]))
    for b in ctx.broken[:5]:
        print("  BROKEN: %s" % b[:300])
    return 1 if (bad or ctx.broken) else 0


if __name__ == "__main__":
    sys.exit(main(sys.argv))
