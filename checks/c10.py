"""C10 - static checks accept exactly the well-formed programs and name the right error.

Deciding method: a reference checker `defects : prog -> list (class * lines)` in Coq (coq/Static, theorems in
Props_C10.v relate it to a declarative well-formedness judgement), tied to /repo by three-way agreement on
every case: (a) the generator's intent, (b) `check_prog` evaluated by coqc, (c) the compiler (harness/cli-driver):
the compiler must reject iff `defects <> []`, and the class (first line of the message) and line (`--> path:LINE`)
it reports must be among `defects`.

Cases: the repository's error tests and positive theories that lie in the fragment (corpus/C10, first), programs
of the typed generator gen/static_gen.py, one single-defect mutant per class and program where the program offers
a place for it, and random small edits without an intended verdict (reference against compiler only).
"""
import glob
import hashlib
import json
import os
import subprocess
import sys
from concurrent.futures import ThreadPoolExecutor

from common import Rng, VERIF, CACHE, REPO, sh, tail

sys.path.insert(0, os.path.join(VERIF, "gen"))
sys.path.insert(0, os.path.join(VERIF, "harness", "cli-driver"))
import static_gen as sg     # noqa: E402
import parse_msg            # noqa: E402

LEVEL = "proof"
REQUIRED = ["C10_symbols_exact", "C10_scopes_exact", "C10_once_exact", "C10_typing_check_exact", "C10_typing_sound",
            "C10_congruence_sound", "C10_surjectivity_sound", "C10_enums_sound", "C10_accept_sound_partial",
            "C10_reject_sound_symbols_partial", "C10_reject_sound_scopes_partial"]

REQUIRES = ("From Coq Require Import List NArith.\nFrom Static Require Import Model Run.\n"
            "Import ListNotations.\nOpen Scope N_scope.\nSet Printing Width 1000000.")
CORPUS = os.path.join(VERIF, "corpus", "C10")
EQL = os.path.join(REPO, "eqlog-eqlog", "src", "eqlog.eql")
REBUILD_TARGET = os.path.join(CACHE, "target-rebuild")


# ------------------------------------------------------------------------------------------ the compiler

def front_end_binary(ctx):
    """The cli-driver binary whose front end is the semantics under test.  The crate eqlog-eqlog normally
    compiles the *prebuilt* eqlog.rs; an edited eqlog.eql reaches the compiler only through feature
    `rebuild`.  So: unchanged eqlog.eql (hash recorded in corpus/C10/eqlog_eql.sha256) -> normal binary;
    otherwise build with --features rebuild into a separate target directory (20-30 min the first time)."""
    recorded = open(os.path.join(CORPUS, "eqlog_eql.sha256")).read().split()[0]
    current = hashlib.sha256(open(EQL, "rb").read()).hexdigest()
    ctx.cov["eqlog_eql_sha256"] = {"recorded": recorded, "current": current}
    if current == recorded:
        ctx.cov["front_end"] = "prebuilt eqlog.rs (eqlog.eql unchanged since the corpus was recorded)"
        bindir = ctx.cargo_build("cli-driver")
        return os.path.join(bindir, "cli-driver") if bindir else None
    ctx.cov["front_end"] = ("eqlog.eql differs from the recorded tree: cli-driver built with --features rebuild "
                            "in .cache/target-rebuild (regenerates and compiles the front end, 20-30 min when cold)")
    d = os.path.join(VERIF, "harness", "cli-driver")
    lock = os.path.join(d, "Cargo.lock")
    if not os.path.exists(lock):
        import shutil
        shutil.copy(os.path.join(REPO, "Cargo.lock"), lock)
    cmd = "cargo build --offline --release --features rebuild --manifest-path %s/Cargo.toml" % d
    ctx.checker_cmds.append("CARGO_TARGET_DIR=.cache/target-rebuild " + cmd)
    rc, out = sh(cmd, env={"CARGO_TARGET_DIR": REBUILD_TARGET}, timeout=3 * 3600)
    if rc != 0:
        ctx.broken.append("cli-driver does not build with feature rebuild against /repo (edited eqlog.eql?)")
        ctx.obligation("harness:cli-driver[rebuild]", False, tail(out, 30))
        return None
    return os.path.join(REBUILD_TARGET, "release", "cli-driver")


def decode(line):
    if line.startswith("ERR "):
        msg = bytes.fromhex(line[4:])
        try:
            cls, n, _ = parse_msg.summary(msg)
            return ("ERR", cls.decode("utf-8", "replace"), n)
        except ValueError:
            return ("ERR?", msg.decode("utf-8", "replace")[:300], 0)
    if line.startswith("PANIC "):
        return ("PANIC", bytes.fromhex(line[6:]).decode("utf-8", "replace")[:300], 0)
    return (line.strip() or "EMPTY", "", 0)


def run_driver_shard(binary, texts, k, limit=None):
    scratch = os.path.join(CACHE, "c10-scratch", str(k))
    os.makedirs(scratch, exist_ok=True)
    out, rest = [], list(texts)
    env = dict(os.environ)
    if limit:
        env["CLI_DRIVER_TIMEOUT_SECS"] = str(limit)
    while rest:
        inp = "".join(t.encode().hex() + "\n" for t in rest)
        p = subprocess.run("ulimit -v 8000000; exec timeout 3000 %s %s" % (binary, scratch), shell=True,
                           input=inp, stdout=subprocess.PIPE, text=True, env=env)
        got = [decode(l) for l in p.stdout.splitlines()]
        out.extend(got)
        if len(got) >= len(rest):
            break
        if got and got[-1][0] == "HANG":        # the watchdog answered and exited
            rest = rest[len(got):]
        else:                                   # died without an answer for the next case
            out.append(("DIED", "driver exited with status %s" % p.returncode, 0))
            rest = rest[len(got) + 1:]
    return out[:len(texts)]


def run_compiler(binary, texts, nshard=16):
    shards = [texts[i::nshard] for i in range(nshard)]
    with ThreadPoolExecutor(max_workers=nshard) as ex:
        outs = list(ex.map(lambda a: run_driver_shard(binary, a[1], a[0]), enumerate(shards)))
    res = [None] * len(texts)
    for i, o in enumerate(outs):
        res[i::nshard] = o
    # the 20 s watchdog of the driver also fires when the machine is busy: cases without an answer are
    # run again one after the other with a generous limit before they count
    again = [i for i, r in enumerate(res) if r is None or r[0] in ("HANG", "DIED")]
    for i in again[:40]:
        r = run_driver_shard(binary, [texts[i]], "retry", limit=300)
        if r:
            res[i] = r[0]
    return res


# ------------------------------------------------------------------------------------------ cases

def load_corpus():
    cases = []
    for f in sorted(glob.glob(os.path.join(CORPUS, "*.json"))):
        o = json.load(open(f))
        if "gallina" not in o:
            continue
        if o["expect"] == "ok":
            intent = "ok"
        elif o["expect"] == "finding":
            intent = None
        else:
            intent = (o["expect"]["class"], o["expect"]["line"])
        cases.append({"kind": "corpus", "name": o["name"], "text": o["text"], "gallina": o["gallina"],
                      "intent": intent, "finding_key": o.get("finding_key")})
    return cases


def gen_cases(ctx):
    quick = ctx.tier == "quick"
    nprog, nmut, nwild = (150, 400, 150) if quick else (3000, 8000, 2000)
    rng = Rng(ctx.seed)
    cases, progs = [], []
    for i in range(nprog):
        r = rng.fork("prog%d" % i)
        prog, text, gal = sg.generate(r, 1 + r.below(2))
        progs.append(prog)
        cases.append({"kind": "generated", "name": "gen-%d" % i, "text": text, "gallina": gal, "intent": "ok"})
    # mutants: classes in rotation; each class walks through the programs with its own pointer until one
    # offers a place for the defect (programs without a match cannot take a match defect, ...)
    nm = len(sg.MUTATORS)
    made = {name: 0 for name, _ in sg.MUTATORS}
    ptr = {name: 0 for name, _ in sg.MUTATORS}
    k, total, idle = 0, 0, 0
    while total < nmut and idle < nm:
        name = sg.MUTATORS[k % nm][0]
        m = None
        for _ in range(60):
            base = progs[ptr[name] % len(progs)]
            ptr[name] += 1
            m = sg.mutate(base, rng.fork("mut%d:%d" % (k, ptr[name])), k % nm)
            if m is not None:
                break
        k += 1
        if m is None:
            idle += 1
            continue
        idle = 0
        text, gal, code, line = m
        cases.append({"kind": "mutant", "name": "mut-%s-%d" % (name, made[name]), "text": text, "gallina": gal,
                      "intent": (code, line), "mutator": name})
        made[name] += 1
        total += 1
    w = 0
    for i in range(nwild * 3):
        if w >= nwild:
            break
        m = sg.wild_edit(progs[i % len(progs)], rng.fork("wild%d" % i))
        if m is None:
            continue
        text, gal, what = m
        cases.append({"kind": "edit", "name": "edit-%d" % w, "text": text, "gallina": gal, "intent": None,
                      "edit": what})
        w += 1
    return cases, made


def eval_model(ctx, cases, nshard=16):
    shards = [list(range(i, len(cases), nshard)) for i in range(nshard)]
    shards = [s for s in shards if s]
    bodies = [["check_prog %s" % cases[i]["gallina"] for i in s] for s in shards]
    res = ctx.coq_eval("Static", "c10", bodies, REQUIRES, timeout=3000)
    for s, vals in zip(shards, res):
        for i, v in zip(s, vals):
            cases[i]["model"] = [(int(c), [int(x) for x in ls]) for (c, ls) in v]


# ------------------------------------------------------------------------------------------ judging

def names(defs):
    return [(sg.CLASSES.get(c, c), ls) for c, ls in defs]


def has_nested_last_fork(text):
    """Does some nested block end in a branch / match?  (shape of finding nested-last-branch)"""
    try:
        prog = sg.parse_program(text)
    except Exception:
        return False

    def block(body, nested):
        if nested and body and body[-1].k in ("branch", "match"):
            return True
        for s in body:
            subs = s.blocks if s.k == "branch" else [c.body for c in s.cases] if s.k == "match" else []
            if any(block(b, True) for b in subs):
                return True
        return False
    return any(block(d.body, False) for d in prog if d.k == "rule")


def has_empty_match(text):
    """Is there a `match t {}` with statements after it in the same block?  (finding empty-match-dead-code)"""
    try:
        prog = sg.parse_program(text)
    except Exception:
        return False
    for d in prog:
        if d.k != "rule":
            continue
        for s, body in sg.walk_stmts(d.body):
            if s.k == "match" and not s.cases and body[-1] is not s:
                return True
    return False


def has_leaking_discriminee(text):
    """Is a match whose term introduces a variable the first statement of a branch block?
    (finding match-discriminee-scope-leak)"""
    try:
        prog = sg.parse_program(text)
    except Exception:
        return False
    for (rule, body, i, s, scope) in sg.sites(prog):
        if s.k == "branch":
            for b in s.blocks:
                if b and b[0].k == "match" and any(v not in scope for v in sg.term_vars(b[0].term)):
                    return True
    return False


def has_self_defined(text):
    """Is there a `then x := t!` whose variable x occurs in t?  (finding then-defined-self-reference)"""
    try:
        prog = sg.parse_program(text)
    except Exception:
        return False
    for d in prog:
        if d.k != "rule":
            continue
        for s, _ in sg.walk_stmts(d.body):
            if s.k == "then" and s.atom[0] == "def" and s.atom[1] is not None and s.atom[1].k == "var" \
                    and s.atom[1].name in sg.term_vars(s.atom[2]):
                return True
    return False


def has_conflicting_redeclaration(text):
    """Is a predicate / function name declared twice with different signatures?  (finding
    dup-func-blames-types)"""
    try:
        prog = sg.parse_program(text)
    except Exception:
        return False
    seen = {}
    for d in prog:
        if d.k in ("pred", "func"):
            sig = (d.k, tuple(d.args), d.res)
            if d.name in seen and seen[d.name] != sig and seen[d.name][0] == d.k:
                return True
            seen.setdefault(d.name, sig)
    return False


def judge(case):
    """Returns (machinery_bug or None, violation or None, finding_key or None)."""
    m, c, intent = case["model"], case["compiler"], case["intent"]
    bug = None
    if intent == "ok" and m:
        bug = "generator meant a well-formed program, reference reports %s" % names(m)
    elif isinstance(intent, tuple) and not any(cl == intent[0] and intent[1] in ls for cl, ls in m):
        bug = "intended defect %s at line %d is not among the reference's %s" % (
            sg.CLASSES.get(intent[0]), intent[1], names(m))
    why, key = None, None
    if c[0] == "OK":
        if m:
            why = "compiler accepts an ill-formed program; reference: %s" % names(m)
            if has_empty_match(case["text"]):
                key = "empty-match-dead-code"
            elif all(cl == sg.CODE["VariableOccursOnlyOnce"] for cl, _ in m) and has_leaking_discriminee(case["text"]):
                key = "match-discriminee-scope-leak"
    elif c[0] == "ERR":
        code = sg.message_class(c[1])
        if not m:
            why = "compiler rejects a well-formed program: %s at line %d" % (c[1], c[2])
            if code == sg.CODE["SurjectivityViolation"] and has_nested_last_fork(case["text"]):
                key = "nested-last-branch"
        elif code is None:
            why = "compiler reports a class outside the fragment's classes: %s" % c[1]
        elif not any(cl == code for cl, _ in m):
            why = "compiler reports class %s (line %d), no defect of this class is present: %s" % (
                sg.CLASSES[code], c[2], names(m))
        elif not any(cl == code and c[2] in ls for cl, ls in m):
            why = "compiler reports %s at line %d, which holds no defect of this class: %s" % (
                sg.CLASSES[code], c[2], names(m))
            if code == sg.CODE["SymbolDeclaredTwice"] and has_conflicting_redeclaration(case["text"]):
                key = "dup-func-blames-types"
    else:
        why = "compiler neither accepts nor reports an error: %s %s" % (c[0], c[1])
        if c[0] == "PANIC" and "should be in image" in c[1] and has_self_defined(case["text"]):
            key = "then-defined-self-reference"
    return bug, why, key


def run(ctx):
    ctx.trusted = ["coqc 8.16.1 kernel; vm_compute evaluates the reference checker on the cases",
                   "gen/static_gen.py: printer (text and Gallina term of one AST, line numbers), parser for the "
                   "corpus, mapping of message first lines to classes",
                   "harness/cli-driver + parse_msg.py (verdict, first line, `--> path:LINE`)",
                   "the reference is hand-written from the language description, not derived from eqlog.eql; "
                   "completeness of type inference and of the congruence closure is validated by the typed "
                   "generator, not proved (Props_C10.v: C10_*_full)"]
    ctx.assumptions = ["fragment: type/pred/func/enum declarations, rules with if/then, nested terms, branch, match; "
                       "no model declarations, member syntax or morphisms",
                       "casing errors are outside the fragment: the generator only emits well-cased names",
                       "one statement / declaration head / constructor / case pattern per source line (generated "
                       "programs); corpus files keep their own layout, every node carries its real line"]
    ok, _ = ctx.coq_build("Static")
    if ok:
        ctx.coq_props("Static", "Props_C10.v", required=REQUIRED)
    binary = front_end_binary(ctx)
    if getattr(ctx, "replay", None):
        r = json.load(open(ctx.replay))
        corpus, gen, made = [], [{"kind": "replay", "name": r.get("case", "replay"), "text": r["text"],
                                  "gallina": r["gallina"],
                                  "intent": tuple(r["intent"]) if isinstance(r.get("intent"), list)
                                  else r.get("intent")}], {}
    else:
        corpus = load_corpus()
        gen, made = gen_cases(ctx)
    cases = corpus + gen
    ctx.cov["rule"] = ("corpus first (error tests and positive theories of /repo inside the fragment, finding cases), "
                       "then generated well-formed programs (size 1-2: <= 3 rules, <= 12 statements and <= 3 "
                       "branch/match statements per rule, nesting <= 2), single-defect mutants (classes in "
                       "rotation, each on the next program offering a place) and random small edits; non-trivial = "
                       "the program has a rule with a then-statement or a branch/match; distinct = distinct texts")
    ctx.cov["cases"] = {"corpus": len(corpus), "generated": sum(1 for c in gen if c["kind"] == "generated"),
                        "mutants": sum(1 for c in gen if c["kind"] == "mutant"),
                        "edits": sum(1 for c in gen if c["kind"] == "edit")}
    ctx.cov["outside_fragment"] = [o["source"] for o in json.load(open(os.path.join(CORPUS, "outside.json")))["outside_fragment"]]
    ctx.cov["coverage_gaps"] = [name for name, n in made.items() if n == 0]
    if binary is None or not ok:
        return
    try:
        eval_model(ctx, cases)
    except Exception as ex:
        ctx.broken.append("reference evaluation failed: %s" % str(ex)[:300])
        return
    comp = run_compiler(binary, [c["text"] for c in cases])
    for c, r in zip(cases, comp):
        c["compiler"] = r if r is not None else ("DIED", "no answer", 0)
    per = {}
    outcomes = {"OK": 0, "ERR": 0}
    nbug = nviol = nknown_shape = 0
    nviol_before = len(ctx.violations)
    for c in cases:
        nontrivial = any(k in c["text"] for k in ("then ", "branch", "match"))
        ctx.count("case", c["text"] if nontrivial else None, nontrivial)
        outcomes[c["compiler"][0]] = outcomes.get(c["compiler"][0], 0) + 1
        if c["kind"] == "mutant":
            st = per.setdefault(c["mutator"], {"mutants": 0, "reference_rejected": 0, "compiler_rejected": 0,
                                               "compiler_same_class": 0})
            st["mutants"] += 1
            st["reference_rejected"] += 1 if c["model"] else 0
            st["compiler_rejected"] += 1 if c["compiler"][0] == "ERR" else 0
            if c["compiler"][0] == "ERR" and sg.message_class(c["compiler"][1]) == c["intent"][0]:
                st["compiler_same_class"] += 1
        bug, why, key = judge(c)
        replay = {"kind": "input", "case": c["name"], "text": c["text"], "gallina": c["gallina"],
                  "intent": list(c["intent"]) if isinstance(c["intent"], tuple) else c["intent"],
                  "reference": names(c["model"]), "compiler": list(c["compiler"])}
        if c.get("edit"):
            replay["edit"] = c["edit"]
        if bug is not None:
            nbug += 1
            if nbug <= 3:
                ctx.broken.append("machinery: %s: %s" % (c["name"], bug))
                ctx.write_replay(dict(replay, what=bug))
            continue
        if why is not None:
            nviol += 1
            # a finding key is attached only when the input has the shape of that finding (see judge);
            # every other disagreement is a plain violation
            if key is not None:
                nknown_shape += 1
            if nviol - nknown_shape <= 12 or key is not None:
                ctx.violation(replay, why, finding_key=key)
    classes_seen = {}
    for c in cases:
        if c["compiler"][0] == "ERR":
            k = sg.CLASSES.get(sg.message_class(c["compiler"][1]), c["compiler"][1])
            classes_seen[k] = classes_seen.get(k, 0) + 1
    ctx.cov["per_class"] = per
    ctx.cov["compiler_outcomes"] = outcomes
    ctx.cov["compiler_reported_classes"] = classes_seen
    ctx.cov["disagreements"] = {"generator_vs_reference": nbug, "reference_vs_compiler": nviol}
    for c in cases[:400]:
        if c["kind"] == "mutant":
            ctx.sample({"case": c["name"], "intent": [sg.CLASSES[c["intent"][0]], c["intent"][1]],
                        "reference": names(c["model"])[:4], "compiler": list(c["compiler"])})
            break
    ctx.obligation("agreement:generator-reference", nbug == 0, "%d cases with an intended verdict" %
                   sum(1 for c in cases if c["intent"] is not None))
    fresh = len(ctx.violations) - nviol_before
    ctx.obligation("agreement:reference-compiler", fresh == 0,
                   "%d cases, %d disagreements, %d of them not covered by known findings" % (len(cases), nviol, fresh))
