"""C08 - tuple containers behave as ordered sets of fixed-arity tuples.

Deciding method: Coq theorems about an exact Gallina model of prefix_tree.rs (coq/PTree: one template generic
in the arity over a verbatim copy of the C14 tree model), tied to /repo by
  (a) exact step-by-step correspondence on two families of clones (arity n and n-1) for all arities 0..9: return
      value, is_empty, iteration order, and the whole nested structure (every len field, every tree shape, so an
      empty subtree left under a key is visible) of every handle after every operation;
  (b) the template-uniformity test: for every method the `impl PrefixTreeK` blocks for K = 2..9 of
      prefix_tree.rs are textually instances of one template under K -> n (the model has ONE definition for
      all K >= 2; arities 0 and 1 are the base cases and are modelled separately);
  (c) sha256 identity of the copied C14 files with their originals in coq/WBT.
On a disagreement the implementation's own output is judged by a property-level reference (python sets of tuples).
"""
import hashlib
import itertools
import json
import os
import re
import subprocess
from concurrent.futures import ThreadPoolExecutor

from common import CACHE, REPO, VERIF, Rng, parse_coq_value, sh, tail

LEVEL = "proof"
REQUIRED = ["C08_insert", "C08_remove", "C08_contains", "C08_iter_sorted", "C08_is_empty", "C08_clear",
            "C08_union", "C08_difference", "C08_get", "C08_iter_restrictions", "C08_insert_restriction",
            "C08_remove_restriction", "C08_mapped", "C08_inv_reachable", "C08_no_panic", "C08_persistence"]

# ------------------------------------------------------------------ copied C14 files

WBT_COPIES = ["Model", "Spec", "FactsList", "FactsBalance", "FactsOrder", "FactsInv"]


def derive_copy(name, text):
    """The only admitted differences between coq/WBT/<name>.v and coq/PTree/WBT_<name>.v."""
    hdr = ("(* PTree/WBT_%s.v -- COPY of coq/WBT/%s.v (property C14's library).  Content unchanged except\n"
           "   (1) this three-line header and (2) every line `From WBT Require Import A B ...` reads\n"
           "   `From PTree Require Import WBT_A WBT_B ...`.  checks/c08.py re-derives this file from the original "
           "and compares sha256.  DO NOT EDIT. *)\n") % (name, name)

    def sub(m):
        return "From PTree Require Import " + " ".join("WBT_" + x for x in m.group(1).split()) + "."
    return hdr + re.sub(r"^From WBT Require Import ([A-Za-z_0-9 ]+)\.$", sub, text, flags=re.M)


def check_copies(ctx):
    for n in WBT_COPIES:
        src = os.path.join(VERIF, "coq", "WBT", n + ".v")
        dst = os.path.join(VERIF, "coq", "PTree", "WBT_" + n + ".v")
        try:
            want = hashlib.sha256(derive_copy(n, open(src).read()).encode()).hexdigest()
            have = hashlib.sha256(open(dst).read().encode()).hexdigest()
        except OSError as ex:
            ctx.obligation("copy:WBT_%s.v" % n, False, str(ex))
            ctx.broken.append("copied file WBT_%s.v or its original is missing" % n)
            continue
        ok = want == have
        ctx.obligation("copy:WBT_%s.v" % n, ok, "sha256 %s (= original + header + library rename)" % have[:16] if ok
                       else "coq/PTree/WBT_%s.v differs from coq/WBT/%s.v (sha256 %s vs %s)" % (n, n, have[:16], want[:16]))
        if not ok:
            ctx.broken.append("coq/PTree/WBT_%s.v is not a copy of coq/WBT/%s.v" % (n, n))


# ------------------------------------------------------------------ op language

# opcode -> (coq ctor, arg kinds)   h = handle, x = tuple of the main arity, y = tuple of the sub arity, k = key,
#                                   m = column maps
OPS = {
    0: ("Insert", "hx"), 1: ("Remove", "hx"), 2: ("Contains", "hx"), 3: ("IsEmpty", "h"), 4: ("Clear", "h"),
    5: ("Iter", "h"), 6: ("Get", "hk"), 7: ("IterRestrictions", "h"), 8: ("Union", "hhh"),
    9: ("Difference", "hhh"), 10: ("InsertRestriction", "hkh"), 11: ("RemoveRestriction", "hkh"),
    12: ("Mapped", "hhm"), 13: ("Clone", "hh"), 14: ("GetClone", "hhk"), 15: ("InsertSub", "hy"),
    16: ("RemoveSub", "hy"),
}
NO_ARITY0 = (6, 7, 10, 11, 14)


def op_rust(op):
    out = [str(op[0])]
    for kind, a in zip(OPS[op[0]][1], op[1:]):
        if kind in "hk":
            out.append(str(a))
        elif kind in "xy":
            out.extend(str(v) for v in a)
        else:
            for col in a:
                if col is None:
                    out.append("0")
                else:
                    out.append("1 %d" % len(col))
                    out.extend("%d %d" % p for p in col)
    return " ".join(out)


def op_coq(op):
    out = [OPS[op[0]][0]]
    for kind, a in zip(OPS[op[0]][1], op[1:]):
        if kind in "hk":
            out.append(str(a))
        elif kind in "xy":
            out.append("[" + "; ".join(str(v) for v in a) + "]")
        else:
            out.append("[" + "; ".join("None" if c is None else "Some [" + "; ".join("(%d, %d)" % p for p in c) + "]"
                                       for c in a) + "]")
    return " ".join(out)


def seq_rust(s):
    pre = s.get("pre") or []
    body = "; ".join(op_rust(o) for o in s["ops"])
    if pre:
        body = "%s; 99; %s" % ("; ".join(op_rust(o) for o in pre), body)
    return "%d | %s" % (s["n"], body)


def seq_from_rust(line):
    """Inverse of seq_rust (used by --replay)."""
    head, body = line.split("|", 1)
    n = int(head)
    pre, ops = [], []
    for txt in body.split(";"):
        w = [int(x) for x in txt.split()]
        if not w:
            continue
        code, pos, args = w[0], 1, []
        if code == 99:
            pre, ops = ops, []
            continue
        for kind in OPS[code][1]:
            if kind in "hk":
                args.append(w[pos]); pos += 1
            elif kind in "xy":
                ln = n if kind == "x" else max(n - 1, 0)
                args.append(tuple(w[pos:pos + ln])); pos += ln
            else:
                maps = []
                for _ in range(n):
                    if w[pos] == 0:
                        maps.append(None); pos += 1
                    else:
                        cnt = w[pos + 1]
                        maps.append([(w[pos + 2 + 2 * i], w[pos + 3 + 2 * i]) for i in range(cnt)])
                        pos += 2 + 2 * cnt
                args.append(maps)
        ops.append((code,) + tuple(args))
    return {"n": n, "pre": pre, "ops": ops}


def seq_coq(s):
    pre = s.get("pre") or []
    if pre:
        return "run_ops_pre %d [%s] [%s]" % (s["n"], "; ".join(op_coq(o) for o in pre),
                                             "; ".join(op_coq(o) for o in s["ops"]))
    return "run_ops %d [%s]" % (s["n"], "; ".join(op_coq(o) for o in s["ops"]))


# ------------------------------------------------------------------ generators

def map_choices(n):
    """A few column-map vectors over keys {0,1}: identity, partial first column, swap everywhere, partial last."""
    if n == 0:
        return [[]]
    res = [[None] * n, [[(0, 1)]] + [None] * (n - 1), [[(0, 1), (1, 0)]] * n, [None] * (n - 1) + [[(1, 0), (1, 1)]]]
    out = []
    for r in res:
        if r not in out:
            out.append(r)
    return out


def universe(n, keys=(0, 1), hs=(0, 1)):
    u = []
    tm = list(itertools.product(keys, repeat=n))
    ts = list(itertools.product(keys, repeat=max(n - 1, 0)))
    for code, (_, kinds) in OPS.items():
        if n == 0 and code in NO_ARITY0:
            continue
        doms = []
        for k in kinds:
            doms.append({"h": hs, "k": keys, "x": tm, "y": ts, "m": map_choices(n)}[k])
        for args in itertools.product(*doms):
            u.append((code,) + tuple(args))
    return u


def preset(n):
    """A populated start state: shared prefixes, a subtree with one tuple, subs that match subtrees."""
    if n == 0:
        return [(0, 0, ())]
    z = (0,) * n
    ops = [(0, 0, z), (0, 0, z[:-1] + (1,)), (0, 0, (1,) + z[1:]), (0, 1, z), (15, 0, z[1:])]
    if n >= 2:
        ops += [(15, 1, z[1:]), (15, 1, z[1:-1] + (1,))]
    return ops


def rand_maps(rng, n, vals):
    maps = []
    for _ in range(n):
        c = rng.below(10)
        if c < 5:
            maps.append(None)
        else:
            pairs = []
            for k in vals:
                if rng.chance(3, 4):            # partial: some keys undefined
                    pairs.append((k, rng.choice(vals)))
                    if rng.chance(1, 4):        # several values for one key: the first (least) one counts
                        pairs.append((k, rng.choice(vals)))
            maps.append(rng.shuffle(pairs))
    return maps


WEIGHTS = ([0] * 10 + [1] * 4 + [2] * 2 + [3] * 2 + [4] + [5] * 2 + [6] * 2 + [7] * 2 + [8] * 3 + [9] * 3 + [10] * 4 +
           [11] * 5 + [12] * 3 + [13] * 3 + [14] * 3 + [15] * 5 + [16] * 2)


def rand_seq(rng, n, length):
    # every fourth sequence works on wide levels (10-17 values per column, 20-40 tuples, insert-heavy start): maps with
    # >= 8 keys on one level are needed to reach removals of nodes with two children and deep successors
    wide = n > 0 and rng.chance(1, 4)
    nv = (10 + rng.below(8)) if wide else (2 + rng.below(2))
    vals = list(range(nv))
    # a small pool of tuples with shared prefixes
    pool = []
    for _ in range((20 + rng.below(21)) if wide else (4 + rng.below(6))):
        if pool and n > 0:
            base = rng.choice(pool)
            cut = rng.below(n + 1)
            t = tuple(base[:cut]) + tuple(rng.choice(vals) for _ in range(n - cut))
        else:
            t = tuple(rng.choice(vals) for _ in range(n))
        pool.append(t)

    def tup():
        if rng.chance(5, 6):
            return rng.choice(pool)
        return tuple(rng.choice(vals) for _ in range(n))

    def sub():
        return tup()[1:] if n > 0 else ()

    def key():
        if n > 0 and rng.chance(5, 6):
            return rng.choice(pool)[0]
        return rng.below(nv + 1)
    ops = []
    if wide:
        length += 40
    for step in range(length):
        code = rng.choice(WEIGHTS)
        if wide and step < 30 and rng.chance(3, 4):
            code = 0
        if n == 0 and code in NO_ARITY0:
            code = rng.choice([0, 1, 8, 9, 13, 15, 16])
        args = []
        for k in OPS[code][1]:
            if k == "h":
                args.append(rng.below(4) if rng.chance(1, 3) else rng.below(2))
            elif k == "k":
                args.append(key())
            elif k == "x":
                args.append(tup())
            elif k == "y":
                args.append(sub())
            else:
                args.append(rand_maps(rng, n, vals))
        ops.append((code,) + tuple(args))
    return {"n": n, "ops": ops}


def gen_sequences(ctx):
    rng = Rng(ctx.seed)
    quick = ctx.tier == "quick"
    seqs = []
    for n in range(4):
        u = universe(n)
        pre = preset(n)
        for a in u:
            seqs.append({"n": n, "ops": [a]})
            seqs.append({"n": n, "pre": pre, "ops": [a]})
        # pairs (a, b): a read-only first op adds nothing (the state is printed after every op anyway).  From
        # the empty state, and - which is where emptied subtrees and shared structure occur - from the
        # populated state.  Quick tier: arities 0..2 (arity 3: single ops only), from-empty pairs for arity 0.
        small = [o for o in u if not (o[0] in (2, 3, 5, 6, 7) and o[1] == 1)]
        writes = [o for o in small if o[0] not in (2, 3, 5, 6, 7)]
        if quick and n == 3:
            continue
        for a in writes:
            for b in small:
                if n == 0 or not quick:
                    seqs.append({"n": n, "ops": [a, b]})
                seqs.append({"n": n, "pre": pre, "ops": [a, b]})
    n_exh = len(seqs)
    plan = [(150, 30, 60)] if quick else [(1500, 30, 60), (150, 100, 200)]
    for (per_arity, lo, hi) in plan:
        for n in range(10):
            for _ in range(per_arity):
                seqs.append(rand_seq(rng, n, lo + rng.below(hi - lo + 1)))
    return seqs, n_exh


# ------------------------------------------------------------------ reference semantics (python sets)

def first_vals(col):
    d = {}
    for k, v in col:
        d[k] = min(v, d.get(k, v))
    return d


def ref_run(seq, stats=None):
    """Property-level reference: every container is a python set of tuples.  Yields (ret, mains, subs)."""
    n = seq["n"]
    ms = [set() for _ in range(4)]
    ss = [set() for _ in range(4)]
    outs = []

    def restr(s, k):
        return {x[1:] for x in s if x[0] == k}

    def b(v):
        return [[1 if v else 0]]
    npre = len(seq.get("pre") or [])
    for op in (seq.get("pre") or []) + seq["ops"]:
        c, a = op[0], op[1:]
        r = []
        if c == 0:
            r = b(a[1] not in ms[a[0]]); ms[a[0]].add(a[1])
        elif c == 1:
            r = b(a[1] in ms[a[0]]); ms[a[0]].discard(a[1])
        elif c == 2:
            r = b(a[1] in ms[a[0]])
        elif c == 3:
            r = b(not ms[a[0]])
        elif c == 4:
            ms[a[0]] = set()
        elif c == 5:
            r = [list(x) for x in sorted(ms[a[0]])]
        elif c == 6:
            rs = restr(ms[a[0]], a[1])
            r = [[1]] + [list(x) for x in sorted(rs)] if rs else [[0]]
        elif c == 7:
            for k in sorted({x[0] for x in ms[a[0]]}):
                rs = sorted(restr(ms[a[0]], k))
                r.append([k, len(rs)])
                r.extend(list(x) for x in rs)
        elif c == 8:
            ms[a[0]] = ms[a[1]] | ms[a[2]]
        elif c == 9:
            ms[a[0]] = ms[a[1]] - ms[a[2]]
        elif c == 10:
            ms[a[0]] = ms[a[0]] | {(a[1],) + y for y in ss[a[2]]}
            if stats is not None and not ss[a[2]]:
                stats["insert_restriction_empty_arg"] = stats.get("insert_restriction_empty_arg", 0) + 1
        elif c == 11:
            before = restr(ms[a[0]], a[1])
            ms[a[0]] = ms[a[0]] - {(a[1],) + y for y in ss[a[2]]}
            if stats is not None and before and not restr(ms[a[0]], a[1]):
                stats["remove_restriction_emptied_subtree"] = stats.get("remove_restriction_emptied_subtree", 0) + 1
        elif c == 12:
            fv = [None if col is None else first_vals(col) for col in a[2]]
            res = set()
            dropped = False
            for x in ms[a[1]]:
                y = tuple(v if f is None else f.get(v) for v, f in zip(x, fv))
                if None in y:
                    dropped = True
                else:
                    res.add(y)
            if stats is not None and ms[a[1]]:
                key = "mapped_partial" if dropped else "mapped_total"
                stats[key] = stats.get(key, 0) + 1
                if len(res) < len(ms[a[1]]) and not dropped:
                    stats["mapped_merging"] = stats.get("mapped_merging", 0) + 1
            ms[a[0]] = res
        elif c == 13:
            ms[a[1]] = set(ms[a[0]])
        elif c == 14:
            rs = restr(ms[a[1]], a[2])
            r = b(bool(rs))
            if rs:
                ss[a[0]] = rs
        elif c == 15:
            r = b(a[1] not in ss[a[0]]); ss[a[0]].add(a[1])
        elif c == 16:
            r = b(a[1] in ss[a[0]]); ss[a[0]].discard(a[1])
        if stats is not None and c == 1 and r == [[1]] and n >= 2 and not restr(ms[a[0]], a[1][0]):
            stats["remove_emptied_subtree"] = stats.get("remove_emptied_subtree", 0) + 1
        outs.append((r, [set(x) for x in ms], [set(x) for x in ss]))
    return outs[npre:]


def parse_enc(toks, arity):
    """enc -> (tuples of the structure, problem or None).  Walks exactly what the driver walked."""
    pos = [0]
    problem = []

    def node(k, top):
        if k == 0:
            v = toks[pos[0]]
            pos[0] += 1
            return [()] if v == 1 else []
        ln = toks[pos[0]]
        pos[0] += 1
        keys = []

        def shape():
            t = toks[pos[0]]
            pos[0] += 1
            if t == 0:
                return
            key = toks[pos[0]]
            pos[0] += 2
            shape()
            keys.append(key)
            shape()
        shape()
        if any(x >= y for x, y in zip(keys, keys[1:])):
            problem.append("keys of a map are not strictly increasing in iteration order: %s" % keys[:10])
        if ln != len(keys):
            problem.append("a map reports len %d but holds %d keys" % (ln, len(keys)))
        if not top and not keys:
            problem.append("an empty subtree is stored under a key (the invariant 'no key maps to an empty subtree' is broken)")
        if k == 1:
            return [(x,) for x in keys]
        res = []
        for key in keys:
            res.extend((key,) + t for t in node(k - 1, False))
        return res
    try:
        tuples = node(arity, True)
        if pos[0] != len(toks):
            problem.append("trailing structure tokens")
    except IndexError:
        return [], "truncated structure"
    return tuples, (problem[0] if problem else None)


def judge_impl(seq, lines, panic):
    """Does the implementation's own output violate the property on this sequence?  None = it does not."""
    if panic is not None:
        return "implementation panicked: %s" % panic
    ref = ref_run(seq)
    n = seq["n"]
    last = {}
    for i, (ln, (r, ms, ss)) in enumerate(zip(lines, ref)):
        what = "op %d (%s)" % (i, op_coq(seq["ops"][i]))
        try:
            v = parse_coq_value(ln)
            ret, hm, hs = v
            assert isinstance(ret, tuple) and ret[0] == "Some" and len(hm) == 4 and len(hs) == 4
        except Exception:
            return "unparsable driver line %d: %s" % (i, ln[:80])
        if ret[1] != r:
            return "%s: returned %s, a set of tuples would return %s" % (what, ret[1], r)
        for fam, arity, hst, want in (("main", n, hm, ms), ("sub", max(n - 1, 0), hs, ss)):
            for h in range(4):
                name = "%s handle %d" % (fam, h)
                # delta encoding: None = same observation as in the previous line
                if hst[h] == "None":
                    if (fam, h) not in last:
                        return "unparsable driver line %d (no previous state for %s)" % (i, name)
                else:
                    if not (isinstance(hst[h], tuple) and hst[h][0] == "Some" and len(hst[h]) == 2):
                        return "unparsable driver line %d" % i
                    last[(fam, h)] = hst[h][1]
                emp, tl, enc = last[(fam, h)]
                tl = [tuple(t) for t in tl]
                w = sorted(want[h])
                if any(x >= y for x, y in zip(tl, tl[1:])):
                    return "%s: %s iterates %s: not strictly lexicographically sorted" % (what, name, tl[:8])
                if tl != w:
                    return "%s: %s contains %s, the reference set is %s" % (what, name, tl[:8], w[:8])
                if (emp == "true") != (not w):
                    return "%s: %s reports is_empty = %s but contains %d tuple(s)" % (what, name, emp, len(w))
                st, why = parse_enc(enc, arity)
                if why:
                    return "%s: %s: %s" % (what, name, why)
                if st != w:
                    return "%s: %s: nested structure holds %s but iteration gives %s" % (what, name, st[:8], w[:8])
    if len(lines) != len(seq["ops"]):
        return "implementation stopped after %d of %d ops" % (len(lines), len(seq["ops"]))
    return None


# ------------------------------------------------------------------ running both sides

def run_driver(bindir, seqs, nproc=16):
    """-> per sequence (lines, panic message or None); the input is split over nproc driver processes."""
    chunks = [seqs[i::nproc] for i in range(nproc)]

    def one(chunk):
        if not chunk:
            return []
        inp = "\n".join(seq_rust(s) for s in chunk) + "\n"
        p = subprocess.run("ulimit -v 4000000; exec %s/ptree-driver" % bindir, shell=True, input=inp,
                           stdout=subprocess.PIPE, text=True, timeout=3000)
        res, cur, panic = [], None, None
        for line in p.stdout.splitlines():
            if line.startswith("SEQ"):
                cur, panic = [], None
            elif line == "END":
                res.append((cur, panic))
            elif line.startswith("PANIC"):
                panic = line[6:]
            else:
                cur.append(line)
        return res
    out = [None] * len(seqs)
    with ThreadPoolExecutor(max_workers=nproc) as ex:
        for ci, res in enumerate(ex.map(one, chunks)):
            if len(res) != len(chunks[ci]):
                return []
            for j, r in enumerate(res):
                out[ci + j * nproc] = r
    return out


HEADER = ("From Coq Require Import NArith List.\nFrom PTree Require Import WBT_Model Model Run.\nImport ListNotations.\n"
          "Open Scope N_scope.\nSet Printing Width 1000000.\n")


def split_top(s):
    """"[a;b;c]" -> ["a", "b", "c"] splitting at bracket depth 1 only."""
    parts, depth, start = [], 0, 1
    for i, ch in enumerate(s):
        if ch in "[(":
            depth += 1
        elif ch in "])":
            depth -= 1
            if depth == 0 and i > start:
                parts.append(s[start:i])
        elif ch == ";" and depth == 1:
            parts.append(s[start:i])
            start = i + 1
    return parts


def expected_text(lines):
    return "[" + ";".join(lines) + "]"


def run_model(ctx, seqs, expected, nshard=16, tag="c08", batch_ops=300):
    """Evaluates every sequence in the Coq model (vm_compute, several sequences per Eval) and compares with
    `expected` (the driver's text).  -> list: True where equal, else the model's text for that sequence."""
    d = os.path.join(VERIF, "coq", "PTree")
    os.makedirs(os.path.join(d, "gen"), exist_ok=True)
    # balance the shards by op count
    order = sorted(range(len(seqs)), key=lambda i: -len(seqs[i]["ops"]))
    shards = [sorted(order[i::nshard]) for i in range(nshard)]

    def one(si):
        idxs = shards[si]
        if not idxs:
            return []
        batches, cur, w = [], [], 0
        for i in idxs:
            cur.append(i)
            w += len(seqs[i]["ops"])
            if w >= batch_ops:
                batches.append(cur)
                cur, w = [], 0
        if cur:
            batches.append(cur)
        f = os.path.join(d, "gen", "cases_%s_%d.v" % (tag, si))
        with open(f, "w") as fh:
            fh.write(HEADER)
            for b in batches:
                fh.write("Eval vm_compute in [%s].\n" % "; ".join(seq_coq(seqs[i]) for i in b))
        rc, out = sh("coqc -noglob -Q . PTree gen/cases_%s_%d.v" % (tag, si), cwd=d, timeout=3000)
        if rc != 0:
            raise RuntimeError("coqc failed: " + tail(out, 10))
        txt = re.sub(r"\s+", "", out)
        parts = txt.split(":list(listout)")[:-1]
        if len(parts) != len(batches):
            raise RuntimeError("expected %d answers, got %d" % (len(batches), len(parts)))
        res = []
        for b, p in zip(batches, parts):
            p = p[1:] if p.startswith("=") else p
            if p == "[" + ";".join(expected[i] for i in b) + "]":
                res.extend((i, True) for i in b)
                continue
            each = split_top(p)
            if len(each) != len(b):
                raise RuntimeError("cannot split a model answer into %d sequences" % len(b))
            res.extend((i, True if m == expected[i] else m) for i, m in zip(b, each))
        return res

    ctx.checker_cmds.append("cd coq/PTree && coqc -noglob -Q . PTree gen/cases_%s_*.v" % tag)
    res = [None] * len(seqs)
    with ThreadPoolExecutor(max_workers=nshard) as ex:
        for lst in ex.map(one, range(nshard)):
            for i, p in lst:
                res[i] = p
    return res


# ------------------------------------------------------------------ template uniformity of prefix_tree.rs

VARS = "xyzabcdefgh"


def split_impls(src):
    """-> list of (K, fn name, text of the fn item) for every fn inside an `impl PrefixTreeK { .. }` block."""
    out = []
    for m in re.finditer(r"^impl PrefixTree(\d) \{\n(.*?)^\}\n", src, re.M | re.S):
        k, body = int(m.group(1)), m.group(2)
        # fns at nesting depth 1 of the impl block
        starts = [x.start() for x in re.finditer(r"^    (?:pub )?fn ", body, re.M)]
        for s, e in zip(starts, starts[1:] + [len(body)]):
            item = body[s:e]
            name = re.match(r"\s*(?:pub )?fn (\w+)", item).group(1)
            out.append((k, name, item))
    return out


def normalise(text, k):
    """Rewrite everything that may legitimately depend on the arity K into a K-relative form."""
    t = re.sub(r"//[^\n]*", "", text)
    t = re.sub(r"\s+", "", t)
    t = t.replace(",)", ")").replace(",]", "]")
    # |args|{single expression} == |args| expression   (rustfmt adds the braces when it wraps the line)
    prev = None
    while prev != t:
        prev = t
        t = re.sub(r"\|([^|]*)\|\{([^{};]*)\}", r"|\1|\2", t)
    t = t.replace("Option<PrefixTree2>", "Option<COLMAP>")

    def rel(i):
        return "K%+d" % (i - k)

    def els(m):
        idx = [int(x) for x in re.findall(r"el(\d+)", m.group(0))]
        if idx != list(range(idx[0], idx[-1] + 1)):
            return m.group(0)
        return "[EL%d..%s]" % (idx[0], rel(idx[-1]))
    t = re.sub(r"\[el\d+(?:,el\d+)*\]", els, t)

    def vs(m):
        names = m.group(2).split(",")
        if names != list(VARS[:len(names)]):
            return m.group(0)
        return "[%sV0..%s]" % (m.group(1), rel(len(names)))
    t = re.sub(r"\[(k,)?([a-z](?:,[a-z])*)\]", vs, t)

    def params(m):
        idx = [int(x) for x in re.findall(r"map(\d+):", m.group(0))]
        if idx != list(range(idx[0], idx[-1] + 1)):
            return m.group(0)
        return "MAPPARAMS%d..%s" % (idx[0], rel(idx[-1]))
    t = re.sub(r"map\d+:Option<COLMAP>(?:,map\d+:Option<COLMAP>)*", params, t)

    def margs(m):
        idx = [int(x) for x in re.findall(r"map(\d+)\.", m.group(0))]
        if idx != list(range(idx[0], idx[-1] + 1)):
            return m.group(0)
        return "MAPARGS%d..%s" % (idx[0], rel(idx[-1]))
    t = re.sub(r"map\d+\.clone\(\)(?:,map\d+\.clone\(\))*", margs, t)
    t = re.sub(r"PrefixTree(\d)", lambda m: "PrefixTree<%s>" % rel(int(m.group(1))), t)
    t = re.sub(r"\[u32;(\d)\]", lambda m: "[u32;%s]" % rel(int(m.group(1))), t)
    return t


def template_uniformity(ctx, path=None):
    path = path or os.path.join(REPO, "eqlog-runtime", "src", "prefix_tree.rs")
    try:
        src = open(path).read()
    except OSError as ex:
        ctx.broken.append("cannot read prefix_tree.rs: %s" % ex)
        return
    items = split_impls(src)
    by_name = {}
    for k, name, text in items:
        by_name.setdefault(name, {}).setdefault(k, []).append(text)
    bad = []
    for name in sorted(by_name):
        inst = by_name[name]
        if not any(k >= 2 for k in inst):
            continue
        forms = {}
        for k in range(2, 10):
            if k not in inst:
                bad.append("method %s: no impl for arity %d" % (name, k))
                continue
            if len(inst[k]) != 1:
                bad.append("method %s: %d impls for arity %d" % (name, len(inst[k]), k))
            forms[k] = normalise(inst[k][0], k)
        if not forms:
            continue
        # majority form is the template
        counts = {}
        for f in forms.values():
            counts[f] = counts.get(f, 0) + 1
        tmpl = max(counts, key=lambda f: counts[f])
        for k, f in sorted(forms.items()):
            if f != tmpl:
                i = next((j for j, (x, y) in enumerate(zip(f, tmpl)) if x != y), min(len(f), len(tmpl)))
                bad.append("method %s, arity %d is not an instance of the template of the other arities: "
                           "`...%s` where the template has `...%s`" % (name, k, f[max(0, i - 30):i + 40], tmpl[max(0, i - 30):i + 40]))
    # the struct definitions
    for k in range(2, 10):
        if not re.search(r"pub struct PrefixTree%d \{\s*pub map: WBTreeMap<PrefixTree%d>,\s*\}" % (k, k - 1), src):
            bad.append("struct PrefixTree%d is not { pub map: WBTreeMap<PrefixTree%d> }" % (k, k - 1))
    listed = ["new", "empty", "insert_restriction", "insert", "contains", "remove", "is_empty", "clear",
              "iter_restrictions", "iter", "get", "union", "difference", "remove_restriction", "mapped"]
    for name in listed:
        for k in range(0, 2):
            if name in ("insert_restriction", "iter_restrictions", "get", "remove_restriction") and k == 0:
                continue
            if k not in by_name.get(name, {}):
                bad.append("method %s: no impl for arity %d" % (name, k))
    extra = sorted(set(by_name) - set(listed) - {"get_mut", "iter_restrictions_mut", "non_empty"})
    if extra:
        bad.append("methods not covered by the model: %s" % ", ".join(extra))
    ctx.cov["template_uniformity"] = {"methods": sorted(n for n in by_name if any(k >= 2 for k in by_name[n])),
                                      "fn_items": len(items), "differences": len(bad)}
    ctx.obligation("template:prefix_tree.rs", not bad,
                   "every method's impls for arities 2..9 are instances of one template" if not bad else "; ".join(bad)[:600])
    for b in bad[:6]:
        ctx.broken.append("template uniformity: " + b[:300])


def build_scratch_driver(ctx, runtime_dir):
    """Copy harness/ptree-driver to a scratch dir with the eqlog-runtime path replaced (never edits /repo or
    harness/); used only when VERIF_C08_RUNTIME is set (seeded-change demonstrations)."""
    import shutil
    src = os.path.join(VERIF, "harness", "ptree-driver")
    tag = hashlib.sha256(os.path.abspath(runtime_dir).encode()).hexdigest()[:12]
    dst = os.path.join(CACHE, "scratch", "ptree-driver-%s" % tag)
    os.makedirs(os.path.join(dst, "src"), exist_ok=True)
    toml = open(os.path.join(src, "Cargo.toml")).read().replace('path = "/repo/eqlog-runtime"',
                                                                 'path = "%s"' % os.path.abspath(runtime_dir))
    open(os.path.join(dst, "Cargo.toml"), "w").write(toml)
    shutil.copy(os.path.join(src, "src", "main.rs"), os.path.join(dst, "src", "main.rs"))
    shutil.copy(os.path.join(REPO, "Cargo.lock"), os.path.join(dst, "Cargo.lock"))
    rc, out = sh("cargo build --offline --release --manifest-path %s/Cargo.toml" % dst,
                 env={"CARGO_TARGET_DIR": os.path.join(dst, "target")}, timeout=3600)
    if rc != 0:
        ctx.broken.append("ptree-driver does not build against %s" % runtime_dir)
        ctx.obligation("harness:ptree-driver", False, tail(out, 30))
        return None
    return os.path.join(dst, "target", "release")


# ------------------------------------------------------------------ the check

def run(ctx):
    ctx.trusted = ["coqc 8.16.1 kernel; vm_compute evaluates the model on the op sequences",
                   "harness/ptree-driver (walks the public fields .0/.set/.map) + hook verif_shape (read-only) + the "
                   "comparison script",
                   "the textual template test (checks/c08.py::normalise) for 'arities 2..9 are one template'",
                   "Rc sharing / copy-on-write is modelled as value semantics: clone independence is carried by the "
                   "clone-family correspondence, not by a theorem about Rc"]
    ctx.assumptions = ["u32/usize overflow not modelled (N)", "partially consumed iterators not modelled",
                       "get_mut / iter_restrictions_mut are outside the property (they can break the invariant by design)",
                       "tuples of the wrong length (a type error in Rust) are excluded by hypothesis"]
    check_copies(ctx)
    rt = os.environ.get("VERIF_C08_RUNTIME")
    template_uniformity(ctx, os.path.join(rt, "src", "prefix_tree.rs") if rt else None)
    ok, _ = ctx.coq_build("PTree")
    if ok:
        ctx.coq_props("PTree", "Props_C08.v", required=REQUIRED)
    rt = os.environ.get("VERIF_C08_RUNTIME")
    if rt:
        # testing hook for seeded changes: build the driver against another copy of eqlog-runtime
        ctx.cov["runtime_override"] = rt
        bindir = build_scratch_driver(ctx, rt)
    else:
        bindir = ctx.cargo_build("ptree-driver")
    replay = getattr(ctx, "replay", None)
    if replay:
        seqs, n_exh = [seq_from_rust(json.load(open(replay))["driver_input"])], 0
    else:
        seqs, n_exh = gen_sequences(ctx)
    ctx.cov["rule"] = ("exhaustive: for arities 0..3 over keys {0,1} and 2+2 handles, every single op and (quick: arities "
                       "0..2, thorough: 0..3) every pair of ops whose first op is a write, from a populated state with "
                       "shared prefixes (thorough and arity 0: also from the empty state); random: sequences of 30-60 ops for every arity 0..9, tuples drawn from "
                       "a per-sequence pool of 4-9 tuples with shared prefixes over 2-3 values per column, sub-trees drawn "
                       "from the tails of the same pool, partial and non-functional column maps; non-trivial = the "
                       "sequence changes some container; distinct = distinct (arity, op sequence)")
    ctx.cov["exhaustive_sequences"] = n_exh
    ctx.cov["random_sequences"] = len(seqs) - n_exh
    stats, arities, opcount = {}, {}, {}
    for s in seqs:
        arities[s["n"]] = arities.get(s["n"], 0) + 1
        st = {}
        outs = ref_run(s, st)
        for o in s["ops"]:
            opcount[OPS[o[0]][0]] = opcount.get(OPS[o[0]][0], 0) + 1
        for key in st:
            stats[key] = stats.get(key, 0) + 1
        nontrivial = any(m for m in outs[-1][1]) or any(x for x in outs[-1][2]) or len(s["ops"]) > 2
        ctx.count("seq", seq_rust(s) if nontrivial else None, nontrivial)
    ctx.cov["arity_histogram"] = {str(k): v for k, v in sorted(arities.items())}
    ctx.cov["op_distribution"] = opcount
    ctx.cov["sequences_with"] = stats
    if bindir is None:
        return
    impl = run_driver(bindir, seqs)
    if len(impl) != len(seqs):
        ctx.broken.append("ptree-driver answered %d of %d sequences" % (len(impl), len(seqs)))
        return
    k = min(n_exh, len(seqs) - 1)
    ctx.sample({"input": seq_rust(seqs[k])[:200], "last_line": (impl[k][0][-1] if impl[k][0] else "")[:200]})
    model = None
    if ok:
        try:
            model = run_model(ctx, seqs, [expected_text(lines) for lines, _ in impl])
        except Exception as ex:
            ctx.broken.append("model evaluation failed: %s" % str(ex)[:300])
    dis = 0
    for idx, (s, (lines, panic)) in enumerate(zip(seqs, impl)):
        bad = panic is not None
        if model is not None and not bad:
            bad = model[idx] is not True
        if model is None or bad:
            why = judge_impl(s, lines, panic)
            if why:
                ctx.violation({"kind": "input", "arity": s["n"], "silent_prefix": [op_coq(o) for o in s.get("pre") or []],
                               "ops": [op_coq(o) for o in s["ops"]],
                               "driver_input": seq_rust(s),
                               "model_query": seq_coq(s)}, why)
                dis += 1
            elif bad:
                dis += 1
                ctx.broken.append("correspondence: model and implementation differ (shape, structure or value) although "
                                  "the implementation behaves like a set of tuples on: %s" % seq_rust(s)[:300])
            if dis > 3:
                break
    ctx.cov["correspondence"] = {"sequences": len(seqs), "ops": sum(len(s["ops"]) for s in seqs), "disagreements": dis,
                                 "judged_by": "exact text equality with the Coq model" if model is not None else
                                 "python reference sets only (model unavailable)"}
    ctx.obligation("correspondence:prefix_tree", dis == 0 and model is not None,
                   "%d sequences compared step by step incl. nested structure and shapes" % len(seqs))
