"""C18 - morphism ordering is a topological order and cycles are reported.

Deciding method: Coq theorems about the exact Gallina model of `morphism_toposort` (coq/Topo), tied to
/repo by exact correspondence: the real function (harness/rt-driver, built from /repo's working tree) and
the model are run on the same tables and must return the same vector / verdict.
"""
import itertools
import os
import subprocess

from common import Rng, coq_list, VERIF

LEVEL = "proof"
REQUIRED = ["C18_topo_no_panic", "C18_topo_complete", "C18_topo_order", "C18_topo_cycle", "C18_topo_split"]


def fmt_case_rust(c):
    return "|".join(" ".join(str(x) for p in part for x in (p if isinstance(p, tuple) else (p,))) for part in c)


def fmt_case_coq(c):
    def pl(ps):
        return coq_list(ps, lambda p: "(%d,%d)" % p)
    return "(%s, %s, %s, %s, %s, %s)" % (pl(c[0]), pl(c[1]), pl(c[2]), pl(c[3]), coq_list(c[4]), coq_list(c[5]))


def split(rng, items, mode):
    new, old = [], []
    for it in items:
        if mode == "new" or (mode == "rnd" and rng.chance(1, 2)):
            new.append(it)
        else:
            old.append(it)
    return sorted(new), sorted(old)


def make_case(rng, objs, dom, cod, mode):
    """dom: set of (obj, mor); cod: set of (mor, obj); objs: set. Returns the six sorted tables."""
    dn, do = split(rng, sorted(dom), mode)
    cn, co = split(rng, sorted(cod), mode)
    on, oo = split(rng, sorted(objs), mode)
    return (dn, do, cn, co, oo, on)


def gen_cases(ctx):
    rng = Rng(ctx.seed)
    cases = []
    quick = ctx.tier == "quick"
    # exhaustive small multigraphs: k objects, m morphisms, each with dom/cod in objs or undefined
    kmax, mmax = (3, 3) if quick else (3, 4)
    for k in range(0, kmax + 1):
        ends = [None] + list(range(k))
        for m in range(0, mmax + 1):
            for sig in itertools.product(ends, repeat=2 * m):
                dom = {(sig[2 * i], 10 + i) for i in range(m) if sig[2 * i] is not None}
                cod = {(10 + i, sig[2 * i + 1]) for i in range(m) if sig[2 * i + 1] is not None}
                objs = set(range(k))
                modes = ["new", "old", "rnd"] if (k == kmax or not quick) else ["rnd"]
                for mode in modes:
                    cases.append(make_case(rng, objs, dom, cod, mode))
    n_exh = len(cases)
    # random larger graphs, including non-functional dom/cod tables (possible before the first close)
    nrand = 1500 if quick else 20000
    for i in range(nrand):
        k = 1 + rng.below(12 if quick else 40)
        m = rng.below(3 * k + 1)
        acyclic = rng.chance(1, 2)
        dom, cod = set(), set()
        for j in range(m):
            mor = 100 + j
            a, b = rng.below(k), rng.below(k)
            if acyclic and a >= b:
                a, b = b, a
                if a == b:
                    b = None
            if rng.chance(9, 10):
                dom.add((a, mor))
            if b is not None and rng.chance(9, 10):
                cod.add((mor, b))
            if rng.chance(1, 25):  # non-functional tables
                dom.add((rng.below(k), mor))
            if rng.chance(1, 25):
                cod.add((mor, rng.below(k)))
        cases.append(make_case(rng, set(range(k)), dom, cod, "rnd"))
    return cases, n_exh


def py_oracle(c, out):
    """Property-level judgement of an implementation answer (used only to search for a failing input
    after the correspondence broke). out: ('OK', [(m,d,c)..]) | ('CYCLE',) | ('PANIC',)"""
    dn, do, cn, co, oo, on = c
    objs = set(oo) | set(on)

    def get_cod(m):
        for tab in (cn, co):
            cs = [b for (a, b) in tab if a == m]
            if cs:
                return cs[0]
        return None
    dom = dn + do
    wf = all(o in objs for (o, _) in dom) and all((get_cod(m) is None or get_cod(m) in objs) for (_, m) in dom) \
        and len(set(dom)) == len(dom)
    if not wf:
        return None  # outside the property's precondition
    edges = [(m, o, get_cod(m)) for (o, m) in dom if get_cod(m) is not None]
    # cycle?
    succ = {}
    for (_, a, b) in edges:
        succ.setdefault(a, set()).add(b)
    color = {}

    def dfs(u):
        color[u] = 1
        for v in succ.get(u, ()):
            if color.get(v) == 1 or (color.get(v) is None and dfs(v)):
                return True
        color[u] = 2
        return False
    cyclic = any(color.get(u) is None and dfs(u) for u in list(succ))
    if out[0] == "PANIC":
        return "panicked on a well-formed input"
    if out[0] == "CYCLE":
        return None if cyclic else "reported a cycle on an acyclic graph"
    if cyclic:
        return "returned an order for a cyclic graph"
    l = out[1]
    if sorted(l) != sorted(edges):
        return "returned morphisms differ from the morphisms with defined domain and codomain"
    for i in range(len(l)):
        for j in range(i + 1, len(l)):
            if l[j][2] == l[i][1]:
                return "morphism %d into object %d comes after morphism %d out of it" % (l[j][0], l[i][1], l[i][0])
    return None


def run(ctx):
    ctx.trusted = ["coqc 8.16.1 kernel; vm_compute for evaluating the model on cases",
                   "harness/rt-driver (calls eqlog_runtime::morphism_toposort) and the comparison script",
                   "PrefixTree iteration order = sorted order (property C08)"]
    ctx.assumptions = ["u32 ids modelled as N", "inputs satisfy: objects mentioned by dom/cod are in the object set "
                       "(outside it the Rust code unwraps None; model returns Panic there and the driver must agree)"]
    ok, _ = ctx.coq_build("Topo")
    if ok:
        ctx.coq_props("Topo", "Props_C18.v", required=REQUIRED)
    bindir = ctx.cargo_build("rt-driver")
    cases, n_exh = gen_cases(ctx)
    ctx.cov["exhaustive_small_cases"] = n_exh
    ctx.cov["random_cases"] = len(cases) - n_exh
    ctx.cov["rule"] = ("all multigraphs with <=3 objects and <=%d morphisms (each end an object or undefined) x "
                       "{all-new, all-old, random} splits, plus random graphs (half acyclic by construction, 4%% "
                       "non-functional table entries); a case is non-trivial when it has >=1 morphism with both "
                       "ends defined; distinct = distinct six-table inputs" % (3 if ctx.tier == "quick" else 4))
    if bindir is None:
        return
    inp = "\n".join(fmt_case_rust(c) for c in cases) + "\n"
    p = subprocess.run([os.path.join(bindir, "rt-driver"), "topo"], input=inp, stdout=subprocess.PIPE, text=True, timeout=600)
    impl = []
    for line in p.stdout.splitlines():
        if line.startswith("OK"):
            impl.append(("OK", [tuple(int(x) for x in t.split(":")) for t in line.split()[1:]]))
        else:
            impl.append((line.strip(),))
    if len(impl) != len(cases):
        ctx.broken.append("rt-driver produced %d answers for %d cases" % (len(impl), len(cases)))
        return
    dist = {"OK": 0, "CYCLE": 0, "PANIC": 0}
    for c, o in zip(cases, impl):
        dist[o[0]] = dist.get(o[0], 0) + 1
        key = fmt_case_rust(c)
        nontriv = any(True for (o_, m) in c[0] + c[1] if any(a == m for (a, _) in c[2] + c[3]))
        ctx.count("case", key if nontriv else None, nontriv)
    ctx.cov["impl_outcomes"] = dist
    ctx.sample({"input": fmt_case_rust(cases[n_exh]), "impl": str(impl[n_exh])})
    model = None
    if ok:
        nshard = max(16, (len(cases) + 1499) // 1500)       # at most ~1500 cases per coqc run
        shards = [cases[i::nshard] for i in range(nshard)]
        bodies = [["map run_topo %s" % coq_list(sh, fmt_case_coq)] for sh in shards]
        try:
            res = ctx.coq_eval("Topo", "c18", bodies, "Require Import List NArith. Import ListNotations.\n"
                               "Require Import Topo.Model Topo.Run.\nOpen Scope N_scope.", timeout=3600)
            model = [None] * len(cases)
            for s, r in enumerate(res):
                for j, v in enumerate(r[0]):
                    model[s + j * nshard] = v
        except Exception as ex:
            ctx.broken.append("model evaluation failed: %s" % str(ex)[:300])
    disagreements = 0
    if model is not None:
        for c, o, m in zip(cases, impl, model):
            if isinstance(m, tuple) and m[0] == "Ok":
                mm = ("OK", [tuple(flat3(t)) for t in m[1]])
            elif m == "Cycle":
                mm = ("CYCLE",)
            else:
                mm = ("PANIC",)
            if mm != o:
                disagreements += 1
                why = py_oracle(c, o)
                if why is not None:
                    ctx.violation({"kind": "input", "tables": fmt_case_rust(c), "expected_model": str(mm),
                                   "observed": str(o)}, why)
                else:
                    ctx.broken.append("correspondence: model %s vs implementation %s on %s" % (mm, o, fmt_case_rust(c)))
                if disagreements > 5:
                    break
    else:
        # proof or model broke: judge the implementation directly with the property-level oracle
        for c, o in zip(cases, impl):
            why = py_oracle(c, o)
            if why is not None:
                ctx.violation({"kind": "input", "tables": fmt_case_rust(c), "observed": str(o)}, why)
                break
    ctx.cov["correspondence"] = {"cases": len(cases), "disagreements": disagreements}
    ctx.obligation("correspondence:toposort", disagreements == 0 and model is not None,
                   "%d cases compared exactly" % len(cases))


def flat3(t):
    # Coq prints ((m, d), c) as (m, d, c)
    if len(t) == 3:
        return t
    (a, b) = t
    return tuple(a) + (b,)
