"""C05 (equality half) - are_equal_ is exactly what was equated; root_ is an idempotent representative.

Deciding method: Coq theorems about an exact Gallina model of `Unification<T>` (root with path halving,
root_const, union_roots_into, increase_size_to) and of the generated equality API (`new_T_internal`,
`equate_T` with the weight tie-break and `uprooted`, `root_T`, `are_equal_T`) in coq/UF, tied to /repo by
  (a) exact step-by-step correspondence of harness/uf-driver (the real runtime crate + a verbatim
      transcription of the four generated functions) with the model: return value, representative of every
      element and the raw parents vector after every operation; and
  (b) a transcription check: the four functions are regenerated NOW from /repo (real eqlog::process through
      harness/build-driver on a one-sort theory, and on every sort of the repository theories) and compared
      with the text between the markers in harness/uf-driver/src/main.rs.
The insert_/define_/new_ visibility half of C05 is not covered here: see `api_half`.
"""
import itertools
import os
import re
import shutil
import subprocess
from concurrent.futures import ThreadPoolExecutor

from common import CACHE, REPO, Rng, VERIF, sh, tail

LEVEL = "proof"
REQUIRED = ["C05_are_equal_spec", "C05_root_spec", "C05_union_spec", "C05_root_idem", "C05_equate_spec",
            "C05_new_el_spec", "C05_run_WF", "C05_are_equal_equiv", "C05_are_equal_iff_root",
            "C05_root_el_class_unique", "C05_root_el_total"]

CODES = {"Grow": 0, "Root": 1, "RootConst": 2, "Union": 3, "Len": 4, "NewEl": 5, "EquateOp": 6,
         "AddWeight": 7, "SubWeight": 8, "AreEqual": 9, "RootEl": 10}
UMAX = (1 << 64) - 1
PANIC = 1 << 64
NOFUEL = PANIC + 1
BATCH = 100
FUNCS = ["root_el", "are_equal_el", "new_el_internal", "equate_el"]


def to_driver(seq):
    return " ".join(" ".join([str(CODES[o[0]])] + [str(a) for a in o[1:]]) for o in seq)


def to_coq(seq):
    return "[" + "; ".join(o[0] if len(o) == 1 else "%s %s" % (o[0], " ".join(map(str, o[1:]))) for o in seq) + "]"


def parse_driver_input(line):
    names = {v: k for k, v in CODES.items()}
    arity = {"Grow": 1, "Root": 1, "RootConst": 1, "Union": 2, "Len": 0, "NewEl": 0, "EquateOp": 2, "AddWeight": 2,
             "SubWeight": 2, "AreEqual": 2, "RootEl": 1}
    toks, seq, i = [int(t) for t in line.split()], [], 0
    while i < len(toks):
        n = names[toks[i]]
        seq.append((n,) + tuple(toks[i + 1:i + 1 + arity[n]]))
        i += 1 + arity[n]
    return seq


# ------------------------------------------------------------------------------------ transcription check

def extract_fn(text, name):
    """Text of `fn <name>(...) {...}` (from the `fn`/`pub fn` keyword to the matching brace), or None."""
    m = re.search(r"(?:pub\s+)?fn\s+%s\s*\(" % re.escape(name), text)
    if not m:
        return None
    i = text.index("{", m.end())
    depth = 0
    for j in range(i, len(text)):
        if text[j] == "{":
            depth += 1
        elif text[j] == "}":
            depth -= 1
            if depth == 0:
                return text[m.start():j + 1]
    return None


def norm_ws(s):
    s = re.sub(r"\s+", " ", s).strip()
    return re.sub(r"\s*([(){}\[\];,.=<>!&|:+\-*])\s*", r"\1", s)


def driver_transcription():
    src = open(os.path.join(VERIF, "harness", "uf-driver", "src", "main.rs")).read()
    a = src.find("TRANSCRIPTION of generated code")
    b = src.find("end of transcription")
    if a < 0 or b < 0 or b < a:
        return None
    body = src[a:b]
    # the three statements touching the tuple tables are kept as comments at their positions
    body = re.sub(r"^(\s*)//\s*(self\.el_(?:new|old)_order_0\.(?:insert|remove)\(.*\);)\s*$", r"\1\2", body, flags=re.M)
    return {f: extract_fn(body, f) for f in FUNCS}


def sorts_of_module(text):
    """[(TypeName, type_snake)] of a generated module, from the new_<t>_internal signatures."""
    out = []
    for m in re.finditer(r"fn new_([a-z0-9_]+)_internal\(&mut self,[^)]*\)\s*->\s*([A-Za-z0-9_]+)\s*\{", text):
        out.append((m.group(2), m.group(1)))
    return out


def generated_fns(text, camel, snake):
    """The four functions of sort `camel`, with the sort renamed to El/el."""
    names = {"root_el": "root_%s" % snake, "are_equal_el": "are_equal_%s" % snake,
             "new_el_internal": "new_%s_internal" % snake, "equate_el": "equate_%s" % snake}
    res = {}
    for k, n in names.items():
        t = extract_fn(text, n)
        if t is None:
            res[k] = None
            continue
        if (camel, snake) != ("El", "el"):
            t = re.sub(r"\b%s\b" % re.escape(camel), "El", t)
            for suffix in ("equalities", "weights", "uprooted", "new_order_0", "old_order_0"):
                t = re.sub(r"\b%s_%s\b" % (re.escape(snake), suffix), "el_%s" % suffix, t)
            for a, b in names.items():
                t = re.sub(r"\b%s\b" % re.escape(b), a, t)
        res[k] = t
    return res


def transcription_check(ctx, scratch):
    """Regenerate the equality API from /repo and compare with the driver's transcription."""
    exe = os.path.join(CACHE, "target", "release", "build-driver")
    drv = driver_transcription()
    info = {"driver_functions": FUNCS}
    if drv is None or any(v is None for v in drv.values()):
        ctx.obligation("transcription:markers", False, "markers or functions missing in harness/uf-driver/src/main.rs")
        ctx.broken.append("transcription: cannot find the four functions between the markers of uf-driver/src/main.rs")
        return info
    drv_n = {k: norm_ws(v) for k, v in drv.items()}

    def build(name, files):
        ind, out = os.path.join(scratch, name, "in"), os.path.join(scratch, name, "out")
        os.makedirs(ind)
        os.makedirs(out)
        for fn, txt in files.items():
            with open(os.path.join(ind, fn), "w") as f:
                f.write(txt)
        p = subprocess.run([exe, "module", ind, out], stdout=subprocess.PIPE, stderr=subprocess.STDOUT, text=True, timeout=600)
        return p.returncode, p.stdout, out

    ctx.checker_cmds.append(".cache/target/release/build-driver module <one-sort theory> <out>  # regenerate equate_/root_/are_equal_/new_*_internal")
    # (1) the one-sort theories: the sort is called El (no renaming at all) and Foo (renaming only)
    for tname, text, camel, snake in (("el", "type El;\npred p(El);\n", "El", "el"),
                                      ("foo", "type Foo;\npred p(Foo);\n", "Foo", "foo")):
        rc, log, out = build("one-" + tname, {"t.eql": text})
        if rc != 0:
            ctx.obligation("transcription:%s" % tname, False, tail(log, 5))
            ctx.broken.append("transcription: eqlog rejected the one-sort theory: %s" % tail(log, 3))
            continue
        gen = generated_fns(open(os.path.join(out, "t.eql.rs")).read(), camel, snake)
        bad = [k for k in FUNCS if gen[k] is None or norm_ws(gen[k]) != drv_n[k]]
        ctx.obligation("transcription:one-sort-%s" % tname, not bad,
                       "generated %s == transcription in uf-driver (whitespace-normalised%s)" %
                       (", ".join(FUNCS), "" if tname == "el" else ", Foo->El") if not bad else
                       "differs in: %s" % ", ".join(bad))
        for k in bad:
            g = norm_ws(gen[k] or "<missing>")
            at = next((i for i, (x, y) in enumerate(zip(g, drv_n[k])) if x != y), min(len(g), len(drv_n[k])))
            ctx.broken.append("transcription drift: generated `%s` differs from harness/uf-driver/src/main.rs at char %d: generated "
                              "...%s... | driver ...%s..." % (k, at, g[max(0, at - 40):at + 60], drv_n[k][max(0, at - 40):at + 60]))
    # (2) every sort of every repository theory: how far does the transcription reach?
    files = {}
    for p in sorted(os.listdir(os.path.join(REPO, "eqlog-test-eval", "src"))):
        if p.endswith(".eql"):
            files[p] = open(os.path.join(REPO, "eqlog-test-eval", "src", p)).read()
    extra = [("category.eql", os.path.join(REPO, "eqlog-test-eval", "src", "category_mod", "category.eql")),
             ("readme_semilattice.eql", os.path.join(REPO, "examples", "semilattice", "src", "semilattice.eql"))]
    for n, p in extra:
        if os.path.exists(p):
            files[n] = open(p).read()
    rc, log, out = build("repo", files)
    same, variant, drift = 0, [], []
    if rc != 0:
        ctx.obligation("transcription:repo-sorts", False, tail(log, 5))
        ctx.broken.append("transcription: build-driver failed on the repository theories: %s" % tail(log, 3))
    else:
        for fn in sorted(os.listdir(out)):
            text = open(os.path.join(out, fn)).read()
            for camel, snake in sorts_of_module(text):
                gen = generated_fns(text, camel, snake)
                bad = [k for k in FUNCS if gen[k] is None or norm_ws(gen[k]) != drv_n[k]]
                if not bad:
                    same += 1
                    continue
                # member sorts of a model type take a `parent` argument and insert the membership tuple:
                # a documented template variant outside the UF model, everything else is drift
                g = norm_ws(gen["new_el_internal"] or "")
                is_member = bad == ["new_el_internal"] and re.search(r"fn new_el_internal\(&mut self,parent:\w+\)", g) \
                    and re.sub(r"parent:\w+", "", re.sub(r"self\.insert_\w+\(parent,el\.into\(\)\);", "", g)) == drv_n["new_el_internal"]
                (variant if is_member else drift).append("%s:%s(%s)" % (fn[:-len(".eql.rs")], camel, ",".join(bad)))
        ctx.obligation("transcription:repo-sorts", not drift,
                       "%d sorts identical to the transcription, %d member sorts differ only by the `parent` argument "
                       "and the membership insert" % (same, len(variant)) if not drift else "drift in %s" % drift[:5])
        for d in drift[:3]:
            ctx.broken.append("transcription drift on repository sort %s" % d)
    info.update({"one_sort_theories": ["type El; pred p(El);", "type Foo; pred p(Foo);"],
                 "repository_sorts_identical": same, "repository_member_sorts_variant": variant,
                 "repository_sorts_drift": drift})
    return info


def api_half(ctx):
    """insert_/define_/new_ visibility half: see checks/c05_api.py."""
    import c05_api
    c05_api.api_half(ctx)


# ------------------------------------------------------------------------------------------- sequences

def rand_seq(rng, n_el, length):
    """Mostly panic-free sequences over at most n_el elements; about 1% risky ops (out-of-range elements,
    Union of non-roots, weights of elements without weights). A shadow union-find chooses arguments only."""
    mode = rng.choice(["api", "api", "raw", "mixed"])
    seq, parent, w = [], [], []

    def find(x):
        while parent[x] != x:
            x = parent[x]
        return x

    guard = 0
    while len(seq) < length and guard < 20 * length:
        guard += 1
        size, wsize = len(parent), len(w)
        risky = rng.below(100) == 0
        if size == 0 or (size < n_el and rng.below(5) == 0):
            use_new = mode == "api" or (mode == "mixed" and size == wsize and rng.below(10) < 7)
            if use_new and size == wsize:
                seq.append(("NewEl",))
                parent.append(size)
                w.append(0)
            elif mode == "api":
                continue
            else:
                new = size + rng.below(min(n_el, size + 3) - size + 1)
                seq.append(("Grow", new))
                parent.extend(range(size, new))
            continue
        hi = size + (2 if risky else 0)
        x, y = rng.below(hi), rng.below(hi)
        kinds = ["Root", "RootConst", "Union", "Len", "AreEqual", "RootEl"]
        if mode == "api":
            kinds = ["Root", "RootConst", "Len", "AreEqual", "AreEqual", "RootEl", "RootEl"]
        if mode != "raw" or risky:
            kinds += ["EquateOp", "EquateOp", "EquateOp", "AddWeight", "SubWeight"]
        k = rng.choice(kinds)
        if k in ("Root", "RootConst"):
            seq.append((k, x))
            if x >= size:
                return seq
        elif k == "Len":
            seq.append(("Len",))
        elif k == "AreEqual":
            seq.append(("AreEqual", x, rng.below(size + 2)))
        elif k == "RootEl":
            seq.append(("RootEl", rng.below(size + 2)))
        elif k == "Union":
            if x < size and y < size and not risky:
                x, y = find(x), find(y)
            seq.append(("Union", x, y))
            if x < size and y < size and find(x) == x and find(y) == y:
                parent[x] = y
            else:
                return seq
        elif k == "EquateOp":
            if x >= size or y >= size:
                seq.append(("EquateOp", x, y))
                return seq
            l, r = find(x), find(y)
            if l != r and (l >= wsize or r >= wsize):
                if not risky:
                    continue
                seq.append(("EquateOp", x, y))
                return seq
            seq.append(("EquateOp", x, y))
            if l != r:
                if w[l] >= w[r]:
                    parent[r] = l
                else:
                    parent[l] = r
        else:
            if x >= wsize:
                if not risky:
                    continue
                seq.append((k, x, 1))
                return seq
            if k == "AddWeight":
                amt = rng.choice([1, 2, 6, 6, 6, UMAX])
                w[x] = min(w[x] + amt, UMAX)
            else:
                amt = rng.choice([1, 6, 7])
                w[x] = max(w[x] - amt, 0)
            seq.append((k, x, amt))
    return seq


def gen_sequences(ctx):
    rng = Rng(ctx.seed)
    quick = ctx.tier == "quick"
    suites = []
    if quick:
        els = range(3)
        alpha_b = ([("EquateOp", a, b) for a in els for b in els] + [("AddWeight", x, 1) for x in els]
                   + [("SubWeight", 0, 1), ("Root", 0), ("Root", 2), ("AreEqual", 0, 1), ("AreEqual", 1, 2), ("AreEqual", 2, 3),
                      ("RootEl", 0), ("RootEl", 2), ("RootEl", 3), ("NewEl",), ("EquateOp", 0, 3)])
        suites.append(("B: NewEl x3; every length-3 sequence over %d API ops" % len(alpha_b),
                       [[("NewEl",)] * 3 + list(t) for t in itertools.product(alpha_b, repeat=3)]))
        els = range(3)
        alpha_a = ([("Root", x) for x in els] + [("Union", a, b) for a in els for b in els]
                   + [("RootConst", 3), ("Root", 3), ("Grow", 4), ("Len",)])
        suites.append(("A: Grow 3; every length-3 sequence over %d runtime ops" % len(alpha_a),
                       [[("Grow", 3)] + list(t) for t in itertools.product(alpha_a, repeat=3)]))
        alpha_c = [("Grow", 0), ("Grow", 2), ("NewEl",), ("Root", 0), ("RootConst", 1), ("Union", 0, 1),
                   ("Union", 1, 0), ("EquateOp", 0, 1), ("EquateOp", 1, 0), ("EquateOp", 0, 0),
                   ("AddWeight", 0, 1), ("AddWeight", 1, 2), ("SubWeight", 0, 1), ("AreEqual", 0, 1),
                   ("AreEqual", 1, 1), ("RootEl", 0), ("RootEl", 1), ("Len",)]
        suites.append(("C: empty model; every sequence of length <=3 over %d ops" % len(alpha_c),
                       [list(t) for k in range(0, 4) for t in itertools.product(alpha_c, repeat=k)]))
        nrand, n_el, length = 1500, 12, 50
    else:
        els = range(4)
        alpha_a = ([("Root", x) for x in els] + [("Union", a, b) for a in els for b in els]
                   + [("RootConst", 4), ("Root", 4), ("Grow", 5), ("Len",)])
        suites.append(("A: Grow 4; every length-4 sequence over %d runtime ops" % len(alpha_a),
                       [[("Grow", 4)] + list(t) for t in itertools.product(alpha_a, repeat=4)]))
        alpha_b = ([("EquateOp", a, b) for a in els for b in els] + [("AddWeight", x, 1) for x in els]
                   + [("SubWeight", 0, 1), ("Root", 0), ("AreEqual", 0, 1), ("AreEqual", 3, 4),
                      ("RootEl", 4), ("NewEl",), ("EquateOp", 0, 4), ("Union", 0, 1)])
        suites.append(("B: NewEl x4; every length-4 sequence over %d API ops" % len(alpha_b),
                       [[("NewEl",)] * 4 + list(t) for t in itertools.product(alpha_b, repeat=4)]))
        alpha_c = [("Grow", 0), ("Grow", 2), ("NewEl",), ("Root", 0), ("RootConst", 1), ("Union", 0, 1),
                   ("Union", 1, 0), ("EquateOp", 0, 1), ("EquateOp", 1, 0), ("EquateOp", 0, 0),
                   ("AddWeight", 0, 1), ("AddWeight", 1, 2), ("SubWeight", 0, 1), ("AreEqual", 0, 1),
                   ("AreEqual", 1, 1), ("RootEl", 0), ("RootEl", 1), ("Len",)]
        suites.append(("C: empty model; every sequence of length <=4 over %d ops" % len(alpha_c),
                       [list(t) for k in range(0, 5) for t in itertools.product(alpha_c, repeat=k)]))
        nrand, n_el, length = 20000, 12, 50
    seqs = []
    for _, s in suites:
        seqs.extend(s)
    n_exh = len(seqs)
    for i in range(nrand):
        # a fifth of the random sequences over a larger universe, so that long parent chains are halved
        if i % 5 == 4:
            seqs.append(rand_seq(rng, 40, 120))
        else:
            seqs.append(rand_seq(rng, n_el, length))
    return seqs, n_exh, [(n, len(s)) for n, s in suites], (nrand, n_el, length)


# ------------------------------------------------------------------------------------------- runners

def run_driver(bindir, seqs):
    inp = "\n".join(to_driver(s) for s in seqs) + "\n"
    p = subprocess.run("ulimit -v 4000000; exec timeout 1200 %s/uf-driver" % bindir, shell=True, input=inp,
                       stdout=subprocess.PIPE, stderr=subprocess.PIPE, text=True)
    if p.returncode != 0:
        raise RuntimeError("uf-driver exited with %d: %s" % (p.returncode, p.stderr[-500:]))
    lines = p.stdout.split("\n")
    if lines and lines[-1] == "":
        lines.pop()
    if len(lines) != len(seqs):
        raise RuntimeError("uf-driver answered %d of %d sequences" % (len(lines), len(seqs)))
    res = []
    for ln in lines:
        if ln.startswith("E "):
            raise RuntimeError("uf-driver input error: " + ln)
        ents = []
        if ln != "":
            for e in ln.split("|"):
                if e == "P":
                    ents.append("P")
                else:
                    ret, reps, par = e.split(":")
                    ents.append((tuple(map(int, ret.split())), tuple(map(int, reps.split())), tuple(map(int, par.split()))))
        res.append(ents)
    return res


def run_model(ctx, seqs, nworkers=16, per_file=6000):
    """-> (entries per sequence, uprooted per sequence or 'P'). Files of at most ~6000 sequences (a coqc on 60000
    sequences needs 3 GB), interleaved so that the long random sequences are spread evenly."""
    nshard = max(nworkers, (len(seqs) + per_file - 1) // per_file)
    d = os.path.join(VERIF, "coq", "UF")
    os.makedirs(os.path.join(d, "gen"), exist_ok=True)
    parts = [(i, seqs[i::nshard]) for i in range(nshard) if seqs[i::nshard]]

    def one(part):
        idx, ss = part
        f = os.path.join(d, "gen", "cases_c05_%d.v" % idx)
        with open(f, "w") as fh:
            fh.write("From Coq Require Import List NArith. Import ListNotations.\nFrom UF Require Import Model Run.\n"
                     "Open Scope N_scope.\n"
                     "Definition upr (ops : list op) : list N := match uprooted_of ops with "
                     "Some l => N.of_nat (length l) :: l | None => [flat_panic] end.\n")
            for i in range(0, len(ss), BATCH):
                chunk = ";\n ".join(to_coq(s) for s in ss[i:i + BATCH])
                fh.write("Eval vm_compute in (flat_batch [%s]).\n" % chunk)
                fh.write("Eval vm_compute in (flat_map upr [%s]).\n" % chunk)
        rc, out = sh("ulimit -s unlimited 2>/dev/null; exec coqc -noglob -Q . UF gen/cases_c05_%d.v" % idx, cwd=d, timeout=7200)
        if rc != 0:
            raise RuntimeError("coqc failed (rc %d) on %s: ...%s" % (rc, f, tail(out, 3)[-200:]))
        blocks = []
        for chunk in out.split(": list N"):
            body = chunk.split("=", 1)
            if len(body) == 2:
                blocks.append([int(x) for x in re.findall(r"\d+", body[1])])
        if len(blocks) != 2 * ((len(ss) + BATCH - 1) // BATCH):
            raise RuntimeError("coqc printed %d blocks for %s" % (len(blocks), f))
        res, ups = [], []
        for bi in range(0, len(blocks), 2):
            nums, pos = blocks[bi], 0
            cnt = min(BATCH, len(ss) - (bi // 2) * BATCH)
            for _ in range(cnt):
                k = nums[pos]
                pos += 1
                ents = []
                for _ in range(k):
                    v = nums[pos]
                    pos += 1
                    if v == PANIC:
                        ents.append("P")
                    elif v == NOFUEL:
                        ents.append("F")
                    else:
                        ret = tuple(nums[pos:pos + v])
                        pos += v
                        m = nums[pos]
                        reps = tuple(nums[pos + 1:pos + 1 + m])
                        pos += 1 + m
                        m = nums[pos]
                        par = tuple(nums[pos + 1:pos + 1 + m])
                        pos += 1 + m
                        ents.append((ret, reps, par))
                res.append(ents)
            if pos != len(nums):
                raise RuntimeError("flat_batch output not consumed exactly in %s" % f)
            nums, pos = blocks[bi + 1], 0
            for _ in range(cnt):
                v = nums[pos]
                pos += 1
                if v == PANIC:
                    ups.append("P")
                else:
                    ups.append(tuple(nums[pos:pos + v]))
                    pos += v
            if pos != len(nums):
                raise RuntimeError("uprooted output not consumed exactly in %s" % f)
        return res, ups

    ctx.checker_cmds.append("cd coq/UF && coqc -noglob -Q . UF gen/cases_c05_*.v")
    out, ups = [None] * len(seqs), [None] * len(seqs)
    with ThreadPoolExecutor(max_workers=nworkers) as ex:
        for (idx, _), (r, u) in zip(parts, ex.map(one, parts)):
            out[idx::nshard] = r
            ups[idx::nshard] = u
    return out, ups


# ------------------------------------------------------------------- property-level oracle (search only)

def judge_impl(seq, ents):
    """Union-find-free reference: a set partition kept as a class label per element. Returns a reason when the
    implementation's own answers violate the property on this sequence, None otherwise."""
    cid = []          # class label of every existing element
    wlen = 0          # number of elements that have a weight (NewEl-made)
    raw = False       # a raw runtime op (Grow/Union) was used: later panics are not judged

    def same(a, b):
        if a < len(cid) and b < len(cid):
            return cid[a] == cid[b]
        return a == b

    for i, op in enumerate(seq):
        if i >= len(ents):
            return "implementation stopped after %d of %d ops without a panic" % (len(ents), len(seq))
        e, name, args = ents[i], op[0], op[1:]
        n = len(cid)
        if e == "P":
            if raw or name in ("Grow", "Union"):
                return None
            if name in ("AreEqual", "RootEl", "Len"):
                return "op %d (%s) panicked; it is total" % (i, to_coq([op]))
            if name == "NewEl":
                return "op %d (NewEl) panicked on a model built with the API only" % i
            els = args[:1] if name in ("AddWeight", "SubWeight", "Root", "RootConst") else args
            if all(a < n for a in els):
                return "op %d (%s) panicked although all its elements exist" % (i, to_coq([op]))
            return None
        ret, reps, _par = e
        if name == "Grow":
            raw = True
            while len(cid) < len(reps):
                cid.append(("g", len(cid)))
        elif name == "NewEl":
            if len(ret) != 1 or ret[0] < n:
                return "op %d (NewEl) returned %s, not distinct from the %d existing elements" % (i, list(ret), n)
            if len(reps) != n + 1 or ret[0] != n:
                return "op %d (NewEl) returned %s but the model now has %d elements" % (i, list(ret), len(reps))
            cid.append(("n", n))
            wlen += 1
        elif name in ("EquateOp", "Union"):
            if name == "Union":
                raw = True
            a, b = args
            if a < n and b < n and cid[a] != cid[b]:
                old, new = cid[b], cid[a]
                cid = [new if c == old else c for c in cid]
        elif name == "AreEqual":
            want = 1 if same(args[0], args[1]) else 0
            if list(ret) != [want]:
                return "op %d (%s) returned %s; the equivalence generated by the equated pairs says %d" % (i, to_coq([op]), list(ret), want)
        elif name in ("RootEl", "Root", "RootConst"):
            if len(ret) != 1 or not same(args[0], ret[0]):
                return "op %d (%s) returned %s, which is outside the class of its argument" % (i, to_coq([op]), list(ret))
            r = ret[0]
            if r < len(reps) and reps[r] != r:
                return "op %d (%s) returned %d, whose own representative is %d (not idempotent)" % (i, to_coq([op]), r, reps[r])
        elif name == "Len":
            if list(ret) != [n]:
                return "op %d (Len) returned %s with %d elements" % (i, list(ret), n)
        if len(reps) != len(cid):
            return "op %d (%s): %d representatives for %d elements" % (i, to_coq([op]), len(reps), len(cid))
        rep_of = {}
        for x, r in enumerate(reps):
            if r >= len(cid) or cid[r] != cid[x]:
                return "op %d (%s): representative %d of element %d is outside its class" % (i, to_coq([op]), r, x)
            if reps[r] != r:
                return "op %d (%s): representative %d of element %d is not its own representative" % (i, to_coq([op]), r, x)
            if rep_of.setdefault(cid[x], r) != r:
                return "op %d (%s): elements %d and %d are equal but have representatives %d and %d" % (
                    i, to_coq([op]), x, rep_of[cid[x]], r, rep_of[cid[x]])
    return None


def implied_uprooted(seq, ents):
    """el_uprooted as far as the implementation's output shows it: the root turned into a child by each EquateOp."""
    up, prev = [], ()
    for op, e in zip(seq, ents):
        if e == "P":
            return "P"
        par = e[2]
        if op[0] == "EquateOp":
            up.extend(x for x in range(len(prev)) if prev[x] == x and par[x] != x)
        prev = par
    return tuple(up)


# ------------------------------------------------------------------------------------------------ run

def run(ctx):
    ctx.trusted = ["coqc 8.16.1 kernel; vm_compute evaluates the model on the op sequences",
                   "harness/uf-driver (real eqlog_runtime::Unification + transcribed generated functions; parents read "
                   "off the derived Debug output) and the comparison script",
                   "harness/build-driver (real eqlog::process) + the textual extraction/normalisation of the four generated "
                   "functions in this check (whitespace, sort name -> El)"]
    ctx.assumptions = ["u32/usize overflow not modelled beyond saturating weights (N); increase_size_to's u32 bound is modelled",
                       "equalities applied by close() reach the union-find only through equate_<sort> (C01-C03 cover close)",
                       "member sorts (new_<sort>_internal(parent)) differ from the transcribed text by the membership insert only; "
                       "tuple tables are outside this half",
                       "the insert_/define_/new_ visibility half is observed on generated programs (checks/c05_api.py) and proved for the models of coq/Coherent (C04_insert_rows, C04_holds_iff_iter) and coq/Engine (C02_define_no_dup_partial)"]
    ok, _ = ctx.coq_build("UF")
    if ok:
        ctx.coq_props("UF", "Props_C05.v", required=REQUIRED)
    bindir = ctx.cargo_build("uf-driver")
    bd = ctx.cargo_build("build-driver")
    scratch = os.path.join(CACHE, "scratch", "c05-%d" % os.getpid())
    shutil.rmtree(scratch, ignore_errors=True)
    os.makedirs(scratch)
    try:
        if bd is not None:
            ctx.cov["transcription"] = transcription_check(ctx, scratch)
    finally:
        shutil.rmtree(scratch, ignore_errors=True)
    api_half(ctx)

    seqs, n_exh, suites, (nrand, n_el, length) = gen_sequences(ctx)
    if getattr(ctx, "replay", None):
        import json
        rp = json.load(open(ctx.replay))
        if "driver_input" in rp:
            seqs, n_exh = [parse_driver_input(rp["driver_input"])], 1
    ctx.cov["rule"] = ("exhaustive suites %s; plus %d random sequences: 4/5 of length %d over <=%d elements, 1/5 of length 120 "
                       "over <=40 elements, in four modes (generated-API only x2: NewEl/EquateOp/AddWeight/SubWeight/AreEqual/"
                       "RootEl/Root/RootConst/Len; runtime only: Grow/Root/RootConst/Union/Len; mixed), ~1%% risky ops "
                       "(out-of-range element, Union of non-roots, missing weight) after which the sequence ends; weights "
                       "amounts from {1,2,6,2^64-1}/{1,6,7}. Compared after EVERY op: return value, representative of every "
                       "element, raw parents vector; el_uprooted at the end. non-trivial = at least two ops that merge two "
                       "classes; distinct = distinct op sequences"
                       % ("; ".join("%s (%d)" % s for s in suites), nrand, length, n_el))
    ctx.cov["exhaustive_sequences"] = n_exh
    ctx.cov["random_sequences"] = len(seqs) - n_exh
    if bindir is None:
        return
    try:
        impl = run_driver(bindir, seqs)
    except Exception as ex:
        ctx.broken.append("uf-driver run failed: %s" % str(ex)[:300])
        return
    opcount, panics, merges_total, maxclass = {}, 0, 0, 0
    for s, ents in zip(seqs, impl):
        merges = 0
        prev = ()
        for o, e in zip(s, ents):
            opcount[o[0]] = opcount.get(o[0], 0) + 1
            if e == "P":
                panics += 1
                break
            if o[0] in ("EquateOp", "Union") and prev and sum(1 for x in range(len(prev)) if prev[x] == x) > \
                    sum(1 for x in range(len(e[2])) if e[2][x] == x) - (len(e[2]) - len(prev)):
                merges += 1
            prev = e[2]
        if ents and ents[-1] != "P":
            reps = ents[-1][1]
            for r in set(reps):
                maxclass = max(maxclass, sum(1 for x in reps if x == r))
        merges_total += merges
        ctx.count("seq", to_driver(s) if merges >= 2 else None, merges >= 2)
    ctx.cov["op_distribution"] = opcount
    ctx.cov["sequences_ending_in_panic"] = panics
    ctx.cov["class_merges"] = merges_total
    ctx.cov["max_class_size_at_end"] = maxclass
    k = n_exh + 1 if len(seqs) > n_exh + 1 else 0
    if not seqs[k]:
        k = len(seqs) - 1
    ctx.sample({"ops": to_coq(seqs[k][:14]) + (" ..." if len(seqs[k]) > 14 else ""),
                "impl_last_entry": str(impl[k][-1] if impl[k] else "")[:200]})

    model = None
    if ok:
        try:
            model, ups = run_model(ctx, seqs)
        except Exception as ex:
            ctx.broken.append("model evaluation failed: %s" % str(ex)[:300])
    dis = 0
    if model is not None:
        for s, a, b, u in zip(seqs, impl, model, ups):
            bad = a != b
            what = None
            if not bad and implied_uprooted(s, a) != u:
                bad, what = True, "el_uprooted: model %s, implied by the implementation's parents %s" % (u, implied_uprooted(s, a))
            if not bad:
                continue
            dis += 1
            why = judge_impl(s, a)
            if why is not None:
                ctx.violation({"kind": "input", "ops": to_coq(s), "driver_input": to_driver(s)}, why)
            else:
                kk = next((i for i, (x, y) in enumerate(zip(a, b)) if x != y), min(len(a), len(b)))
                ctx.broken.append("correspondence: model and implementation differ on %s: %s" % (
                    to_coq(s)[:300], what or "first difference at op %d: driver %s / model %s" % (
                        kk, a[kk] if kk < len(a) else "-", b[kk] if kk < len(b) else "-")))
            if dis > 3:
                break
    else:
        # proof or model broke: judge the implementation alone
        for s, a in zip(seqs, impl):
            why = judge_impl(s, a)
            if why is not None:
                ctx.violation({"kind": "input", "ops": to_coq(s), "driver_input": to_driver(s)}, why)
                break
    ctx.cov["correspondence"] = {"sequences": len(seqs), "executed_ops": sum(len(a) for a in impl), "disagreements": dis}
    ctx.obligation("correspondence:unification+equality-api", dis == 0 and model is not None,
                   "%d sequences compared entry by entry (return, representatives, parents) + el_uprooted" % len(seqs))
