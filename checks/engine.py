"""Shared pipeline for the model-evaluation properties (C01, C02, C03, C06, C07).

generated program -> /repo's compiler (harness/build-driver, module mode) -> generated Rust driver (lib/gendrv)
-> API histories -> dumps, judged by the verified oracles of coq/Sem (check_closed, free_model, check_iso,
check_hom, eval_cond) evaluated inside Coq on exactly these dumps.
"""
import os
import shutil
import sys
from concurrent.futures import ProcessPoolExecutor, ThreadPoolExecutor

sys.path.insert(0, os.path.join(os.path.dirname(os.path.dirname(os.path.abspath(__file__))), "gen"))

import gendrv
import progs
from common import CACHE, VERIF, Rng, coq_list, parse_coq_value, sh, split_eval_outputs, tail

SEM_REQ = ["Sem_closed_b_sound", "Sem_closed_b_complete", "Sem_find_violation_sound", "Sem_check_closed_none",
           "Sem_chase_closed", "Sem_chase_initial", "Sem_iso_b_sound", "Sem_hom_b_sound", "Sem_close_until_contract"]
FUEL = 60

TRUSTED = ["coqc 8.16.1 kernel; vm_compute evaluates the verified oracles of coq/Sem on implementation dumps",
           "lib/gendrv.py (driver generator), harness/build-driver (calls eqlog::process), rustc, the dump parser",
           "gen/progs.py prints the .eql text and the Gallina program from one AST (a printing mismatch would show as a "
           "closedness or isomorphism failure, i.e. a false alarm, never as a missed violation of a closed dump)"]
ASSUME = ["fragment: types, predicates, functions, rules with nested terms, premise equalities, repeated variables, wildcards, "
          "interleaved if/then, `!` and `:=` (no branch/match/enum/model here: see C15/C17)",
          "the tie between the abstract engine theorems (coq/Engine) and the emitted loop is per-program: FamOK via C16's family "
          "obligations; everything else is judged on the implementation's dumps by the Sem oracles",
          "u32 ids modelled as N"]


def build(ctx, engine_props=()):
    ok_sem, _ = ctx.coq_build("Sem")
    if ok_sem:
        ctx.coq_props("Sem", "Props_Sem.v", required=SEM_REQ)
    ok_eng, _ = ctx.coq_build("Engine")
    if ok_eng:
        for f, req in engine_props:
            ctx.coq_props("Engine", f, required=req)
    b1 = ctx.cargo_build("build-driver")
    b2 = ctx.cargo_build("rt-driver")
    return ok_sem, (b1 is not None and b2 is not None)


# ---------------------------------------------------------------------------------- implementation side

def _one_program(args):
    (seed, idx, scratch, nfacts, variants, surjective_only, cu, max_rules) = args[:8]
    rng = Rng(seed).fork("prog%d" % idx)
    # every other program uses enum declarations and branch / match statements
    g = progs.ProgGen(rng, surjective_only=surjective_only, max_rules=max_rules, enums=(idx % 2 == 1), control=(idx % 2 == 1))
    prog = None
    for _ in range(20):
        # every fifth program has relations with 5-9 columns (high-arity index and iteration code)
        prog = progs.wide_program(rng) if idx % 5 == 4 else g.gen()   # (wide programs have no `!`: fine for C06 too)
        if prog is not None:
            break
    if prog is None:
        return {"idx": idx, "status": "nogen"}
    text = progs.prog_eql(prog)
    wd = os.path.join(scratch, "p%d" % idx)
    built, status, log = gendrv.compile_program(prog, wd, text=text)
    res = {"idx": idx, "prog": prog, "text": text, "status": status, "log": log[-2000:], "sets": []}
    if built is None:
        shutil.rmtree(wd, ignore_errors=True)
        return res
    for fi in range(nfacts):
        fs = progs.gen_facts(rng, prog["sig"], rules=prog["rules"])
        canon_calls, canon_h = progs.history_from_facts(rng, fs, "canon")
        entry = {"facts": fs, "canon": canon_calls, "runs": []}
        for v in variants:
            calls, hoe = progs.history_from_facts(rng, fs, "canon" if v == "probe" else v)
            if v == "twice":
                calls = calls + [("close",), ("dump",)]
            if v == "probe":
                calls = calls[:-1] + [("new", t) for t in range(prog["sig"]["ntypes"]) if t not in prog["sig"].get("enums", {})] + [("dump",)]
            lines, st = built.run(calls, timeout=20)
            entry["runs"].append({"variant": v, "calls": calls, "hoe": hoe, "lines": lines, "status": st})
        if cu:
            # close_until runs: conditions drawn from the directly closed model and at random
            base = entry["runs"][0] if entry["runs"] else None
            conds = []
            if base and base["status"] == "ok":
                d = gendrv.parse_dump([l for l in base["lines"] if l.startswith("D ")][-1], prog)
                conds += conds_from_dump(rng, prog, d, canon_h)
            conds += [random_cond(rng, prog, fs, canon_h) for _ in range(2)]
            conds = [c for c in conds if c is not None][:4]
            pre = [c for c in canon_calls if c[0] not in ("close", "dump")]
            for c in conds:
                calls = pre + [("close_until", c), ("dump",), ("close",), ("dump",)]
                lines, st = built.run(calls, timeout=20)
                entry["runs"].append({"variant": "cu", "cond": c, "calls": calls, "hoe": canon_h, "lines": lines, "status": st})
        res["sets"].append(entry)
    built.cleanup()
    return res


def conds_from_dump(rng, prog, d, hoe):
    """Conditions over handles that hold in the closed model d."""
    out = []
    root_of = {}
    for ty, lst in d["elems"].items():
        for (g, r) in lst:
            root_of[g] = r
    hroots = {}
    for hi, g in enumerate(d["handles"]):
        hroots.setdefault(root_of.get(g, g), []).append(hi)
    rows = [(r, row) for r, rs in d["rows"].items() for row in rs if all(x in hroots for x in row)]
    for (r, row) in rng.shuffle(rows)[:2]:
        hs = [rng.choice(hroots[x]) for x in row]
        rel = prog["sig"]["rels"][r]
        if rel["func"] and rng.chance(1, 2):
            out.append(("F", r, hs[:-1]))
        else:
            out.append(("P", r, hs))
    eqs = [(hs[0], hs[1]) for hs in hroots.values() if len(hs) >= 2]
    for (a, b) in rng.shuffle(eqs)[:1]:
        ty = d["raw_handles"][a][0]
        out.append(("E", ty, a, b))
    if len(out) >= 2 and rng.chance(1, 2):
        out.append((rng.choice(["A", "O"]), out[0], out[1]))
    return out


def random_cond(rng, prog, fs, hoe):
    rels = prog["sig"]["rels"]
    r = rng.below(len(rels))
    cols = rels[r]["cols"]
    by_type = lambda t: [hoe[i] for i, ty in enumerate(fs["elems"]) if ty == t]
    if not all(by_type(c) for c in cols):
        return None
    hs = [rng.choice(by_type(c)) for c in cols]
    return ("P", r, hs)


def run_programs(ctx, nprog, nfacts, variants, surjective_only=False, cu=False, max_rules=5, tag="eng",
                 worker=None, opts=None, indices=None):
    """worker: optional replacement of _one_program (a picklable top-level function taking the same argument tuple
    with `opts` (a dict) appended as 9th component) - used by checks that need their own histories (C04)."""
    scratch = os.path.join(CACHE, "scratch", "%s-%d" % (tag, os.getpid()))
    os.makedirs(scratch, exist_ok=True)
    try:
        gendrv.runtime_rlib()
        args = [(ctx.seed, i, scratch, nfacts, variants, surjective_only, cu, max_rules, opts or {})
                for i in (indices if indices is not None else range(nprog))]
        with ProcessPoolExecutor(max_workers=16) as ex:
            res = list(ex.map(worker or _one_program, args))
    finally:
        shutil.rmtree(scratch, ignore_errors=True)
    return res


# ---------------------------------------------------------------------------------- Coq side

def canon_structure(dump, hoe):
    """Structure term with handles permuted into fact-set element order."""
    st = {"elems": dump["elems"], "rows": dump["rows"], "handles": [dump["handles"][h] for h in hoe]}
    return progs.structure_coq(st)


def coq_run(ctx, lib, name, shards, header, timeout=1200, allow_skip=False):
    """shards: list of (prelude_text, [expr]). Returns per shard the parsed values. A shard whose coqc run exceeds the time
    limit is split in halves and retried (an expression that alone exceeds 300 s yields the string "TIMEOUT": some reference
    chases of generated programs blow up; such cases are skipped and counted, never judged)."""
    d = os.path.join(VERIF, "coq", lib)
    os.makedirs(os.path.join(d, "gen"), exist_ok=True)
    counter = [0]

    def evaluate(prelude, exprs, limit, tag):
        if not exprs:
            return []
        counter[0] += 1
        f = os.path.join(d, "gen", "cases_%s_%s_%d.v" % (name, tag, counter[0]))
        with open(f, "w") as fh:
            fh.write(header + "\n" + prelude + "\n")
            for e in exprs:
                fh.write("Eval vm_compute in (%s).\n" % e)
        rc, out = sh("coqc -noglob -Q . %s %s" % (lib, os.path.relpath(f, d)), cwd=d, timeout=limit)
        if rc == 124 and not allow_skip:
            raise RuntimeError("coqc timed out after %ss on %s" % (limit, f))
        if rc == 124:
            if len(exprs) == 1:
                return ["TIMEOUT"]
            half = len(exprs) // 2
            nl = max(300, limit // 2)
            return evaluate(prelude, exprs[:half], nl, tag) + evaluate(prelude, exprs[half:], nl, tag)
        if rc != 0:
            raise RuntimeError("coqc failed on %s: %s" % (f, tail(out, 15)))
        vals = split_eval_outputs(out)
        if len(vals) != len(exprs):
            raise RuntimeError("%d values for %d expressions in %s" % (len(vals), len(exprs), f))
        return [parse_coq_value(v) for v in vals]

    def one(i):
        prelude, exprs = shards[i]
        return evaluate(prelude, exprs, timeout, "s%d" % i)
    ctx.checker_cmds.append("cd coq/%s && coqc -noglob -Q . %s gen/cases_%s_*.v" % (lib, lib, name))
    with ThreadPoolExecutor(max_workers=16) as ex:
        return list(ex.map(one, range(len(shards))))


HEADER = ("Require Import List NArith. Import ListNotations.\nRequire Import Sem.Syntax Sem.Run.\nOpen Scope N_scope.\n"
          "Definition iso_codes (fuel : nat) (p : program) (h : list call) (Ds : list structure) : option (list N) :=\n"
          "  match free_model fuel p h with [Some R] => Some (map (fun D => check_iso_code p R D) Ds) | _ => None end.\n"
          "Definition hom_into (fuel : nat) (p : program) (h : list call) (Ds : list structure) : option (list bool) :=\n"
          "  match free_model fuel p h with [Some R] => Some (map (fun D => check_hom p D R) Ds) | _ => None end.\n"
          "Definition cu_judge (fuel : nat) (p : program) (h : list call) (stop final : structure) : option (bool * N) :=\n"
          "  match free_model fuel p h with [Some R] => Some (check_hom p stop R, check_iso_code p R final) | _ => None end.\n"
          "Definition ref_roots (fuel : nat) (p : program) (h : list call) : option (list (N * N)) :=\n"
          "  match free_model fuel p h with [Some R] => Some (count_roots R) | _ => None end.\n")


def dumps_of(run, prog):
    return [gendrv.parse_dump(l, prog) for l in run["lines"] if l.startswith("D ")]


class Judge:
    """Collects Coq expressions per program and maps results back."""

    def __init__(self, ctx, name):
        self.ctx = ctx
        self.name = name
        self.progs = {}      # idx -> (prelude, [expr], [callback])

    def prog(self, res):
        i = res["idx"]
        if i not in self.progs:
            self.progs[i] = ("Definition p%d : program := %s." % (i, progs.prog_coq(res["prog"])), [], [])
        return self.progs[i]

    def ask(self, res, expr, cb):
        _, exprs, cbs = self.prog(res)
        exprs.append(expr.replace("%P", "p%d" % res["idx"]))
        cbs.append(cb)

    def run(self):
        total = sum(len(e) for (_, e, _) in self.progs.values())
        nshard = max(16, total // 60)      # bounded work per coqc run (reference chases are the expensive part)
        items = sorted(self.progs.items())
        shards = [([], [], []) for _ in range(nshard)]
        # balance by number of expressions
        load = [0] * nshard
        for i, (prelude, exprs, cbs) in items:
            s = load.index(min(load))
            load[s] += len(exprs) + 1
            shards[s][0].append(prelude)
            shards[s][1].extend(exprs)
            shards[s][2].extend(cbs)
        try:
            vals = coq_run(self.ctx, "Sem", self.name, [("\n".join(p), e) for (p, e, _) in shards], HEADER, allow_skip=True)
        except Exception as ex:
            self.ctx.broken.append("oracle evaluation failed: %s" % str(ex)[:400])
            return False
        skipped = 0
        for (p, e, cbs), vs in zip(shards, vals):
            for cb, v in zip(cbs, vs):
                if v == "TIMEOUT":
                    skipped += 1      # oracle / reference too expensive for this case: not judged
                    continue
                cb(v)
        if skipped:
            self.ctx.cov["oracle_timeouts_skipped"] = self.ctx.cov.get("oracle_timeouts_skipped", 0) + skipped
        return True


def status_counts(results):
    c = {}
    for r in results:
        c[r["status"]] = c.get(r["status"], 0) + 1
    return c


def describe_program_failures(ctx, results, what_counts_as_violation=("compiler_panic", "rustc_failed")):
    """A generated, accepted program that makes the compiler panic or whose output rustc rejects is outside
    these properties' own subject (C09 covers it) but makes the case unusable: record it."""
    for r in results:
        if r["status"] in what_counts_as_violation:
            ctx.cov.setdefault("unusable_programs", []).append({"status": r["status"], "text": r.get("text", "")[:600],
                                                               "log": r.get("log", "")[-300:]})
