"""C20 - model evaluation is deterministic.

What decides it today (see level note): the exact, functional Gallina models of the runtime pieces whose order and ids
are observable (union-find with path halving: coq/UF, ordered map iteration: coq/WBT, morphism order: coq/Topo) are
compared EXACTLY with the implementation by C05/C14/C18; here the whole generated module is run on the same API history
in fresh processes with different address-space layouts, environments and working directories and the transcripts
(element ids, return values, order of every iterator, before and after close) must be byte-identical, and the emitted
text and the runtime are scanned for constructs whose behaviour depends on addresses, hashing seeds, time or threads.
"""
import os
import re
import shutil

import engine
import gendrv
import progs
from common import CACHE, Rng

LEVEL = "other"
SCAN = r"HashMap|HashSet|RandomState|DefaultHasher|Instant::|SystemTime|thread::|rayon|\{:p\}|\.addr\(\)|ptr::eq|ptr_eq|as_ptr\(\) as|getrandom|rand::"


def _one(args):
    seed, idx, scratch, nh = args
    rng = Rng(seed).fork("c20-%d" % idx)
    g = progs.ProgGen(rng)
    prog = None
    for _ in range(20):
        prog = g.gen()
        if prog is not None:
            break
    wd = os.path.join(scratch, "p%d" % idx)
    built, status, log = gendrv.compile_program(prog, wd)
    out = {"idx": idx, "status": status, "text": progs.prog_eql(prog), "runs": [], "scan": []}
    if built is None:
        return out
    gen_text = open(os.path.join(wd, "out", "thy.eql.rs")).read()
    out["scan"] = sorted(set(re.findall(SCAN, gen_text)))
    nrel = len(prog["sig"]["rels"])
    for h in range(nh):
        fs = progs.gen_facts(rng, prog["sig"], rules=prog["rules"])
        calls, hoe = progs.history_from_facts(rng, fs, rng.choice(["canon", "perm", "closes", "dups"]))
        # interleave observations: every iterator and point queries, before and after closes
        obs = [("q", "qi %d" % r) for r in range(nrel)] + [("q", "qt %d" % t) for t in range(prog["sig"]["ntypes"])]
        full = []
        for c in calls:
            if c[0] == "close":
                full += obs
            full.append(c)
        full += obs
        variants = []
        base_env = dict(os.environ)
        variants.append(built.run(full, timeout=20, env=base_env))
        variants.append(built.run(full, timeout=20, env=base_env, prefix="setarch -R " if shutil.which("setarch") else ""))
        env3 = dict(base_env, VERIF_PADDING="x" * 100000, HOME="/nonexistent", TZ="Pacific/Kiritimati", LANG="tr_TR.UTF-8")
        cwd = os.getcwd()
        os.chdir(wd)
        try:
            variants.append(built.run(full, timeout=20, env=env3))
        finally:
            os.chdir(cwd)
        out["runs"].append({"calls": full, "variants": variants})
    built.cleanup()
    return out


def run(ctx):
    from concurrent.futures import ProcessPoolExecutor
    ctx.trusted = ["lib/gendrv.py, harness/build-driver, rustc", "the exact models of union-find (C05), ordered map (C14) and "
                   "morphism order (C18) are compared exactly by those checks"]
    ctx.assumptions = ["no exact Gallina interpreter of the whole generated module yet: determinism of the module as a whole is "
                       "validated by repeated execution under different layouts/environments and a source scan, not proved"]
    if ctx.cargo_build("build-driver") is None or ctx.cargo_build("rt-driver") is None:
        return
    quick = ctx.tier == "quick"
    scratch = os.path.join(CACHE, "scratch", "c20-%d" % os.getpid())
    os.makedirs(scratch, exist_ok=True)
    try:
        gendrv.runtime_rlib()
        with ProcessPoolExecutor(max_workers=16) as ex:
            results = list(ex.map(_one, [(ctx.seed, i, scratch, 4 if quick else 10) for i in range(32 if quick else 300)]))
    finally:
        shutil.rmtree(scratch, ignore_errors=True)
    nruns = 0
    scans = {}
    for res in results:
        for s in res["scan"]:
            scans[s] = scans.get(s, 0) + 1
        for r in res["runs"]:
            nruns += 1
            (l0, s0) = r["variants"][0]
            nontriv = len(l0) > 10
            ctx.count("hist", (res["idx"], str(r["calls"])) if nontriv else None, nontriv)
            for k, (l, s) in enumerate(r["variants"][1:], 1):
                if (l, s.split(":")[0]) != (l0, s0.split(":")[0]):
                    diff = next((i for i, (a, b) in enumerate(zip(l, l0)) if a != b), min(len(l), len(l0)))
                    ctx.violation({"kind": "history", "program": res["text"], "calls": r["calls"], "variant": k,
                                   "first_difference_at_line": diff, "run0": l0[diff:diff + 2], "runk": l[diff:diff + 2]},
                                  "two executions of the same API history in fresh processes produced different transcripts")
                    break
            if nruns == 2:
                ctx.sample({"program": res["text"], "transcript_head": l0[:12]})
    # runtime source scan
    rt = {}
    for root, _, files in os.walk("/repo/eqlog-runtime/src"):
        for f in files:
            txt = open(os.path.join(root, f)).read()
            txt = txt.split("#[cfg(test)]")[0]
            for m in re.findall(SCAN, txt):
                rt.setdefault(f, set()).add(m)
    ctx.cov["explanation"] = ("%d histories x 3 fresh processes (default, ASLR disabled via setarch -R, 100 kB extra environment + other "
                              "cwd/HOME/TZ/LANG) with every iterator and type iterator printed before each close and at the end; "
                              "transcripts compared byte for byte. Scan of emitted modules: %s; scan of eqlog-runtime (non-test code): %s"
                              % (nruns, scans or "nothing address/hash/time/thread dependent",
                                 {k: sorted(v) for k, v in rt.items()} or "nothing address/hash/time/thread dependent"))
    ctx.cov["programs"] = engine.status_counts(results)
    ctx.cov["rule"] = "random programs/histories as in C01 with iterator observations interleaved; non-trivial = transcript longer than 10 lines"
    bad = [k for k in scans] + [k for k in rt]
    ctx.obligation("scan: no address/hash/time/thread dependence in emitted text and runtime", not bad, str(bad))
    ctx.obligation("repeat: identical transcripts in fresh processes", not ctx.violations, "%d histories x 3 processes" % nruns)
