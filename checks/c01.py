"""C01 - close() reaches a fixed point: every rule holds in the closed model.

Deciding method: (i) Coq theorem C01_close_closed about the set-level model of the generated loop (coq/Engine),
under the per-program family obligation FamOK (property C16's instance obligations) and the per-rule-function obligation
ram_matches_flat (coq/Ram: the emitted nested loops enumerate exactly the matches of their flat rule), both translated from the
emitted text on this run, and by a per-iteration lockstep correspondence: at every point where close_until evaluates its
condition the private state of the implementation is judged in Coq to be isomorphic (handles fixed; partition, old and new rows,
type sets, root weights) to the state of the weighted engine model run on the same history (checks/engine_tie.py); (ii) the verified
closedness oracle of coq/Sem (closed_b sound AND complete for the declarative rule semantics) evaluated in
Coq on the implementation's dump after the final close() of generated programs x fact sets x histories.
"""
import engine
from common import Rng

LEVEL = "proof"
ENGINE_PROPS = [("Props_C01.v", ["C01_close_closed", "C01_close_functional", "C01_Inv_sn_step", "C01_clean_closed",
                                 "C01_exec_iter_astep", "C01_emit_FamOK"])]
FUNC_CODE, CANON_CODE = 4294967295, 4294967294


def run(ctx):
    ctx.trusted = engine.TRUSTED
    ctx.assumptions = engine.ASSUME
    ok_sem, ok_h = engine.build(ctx, ENGINE_PROPS)
    if not ok_h:
        return
    quick = ctx.tier == "quick"
    results = engine.run_programs(ctx, 40 if quick else 200, 3 if quick else 6,
                                  ["canon", "perm", "closes", "dups"], tag="c01")
    ctx.cov["programs"] = engine.status_counts(results)
    engine.describe_program_failures(ctx, results)
    ctx.cov["rule"] = ("typed random programs (1-3 types, predicates of arity 0-4, functions, 1-5 rules with nested terms, premise "
                       "equalities, repeated variables, wildcards, `!`/`:=`), 3 fact sets each (colliding small universes, equalities, "
                       "defined terms), 4 histories per fact set (creation order / permuted / intermediate closes / duplicated "
                       "assertions); judged: the dump after the final close(); non-trivial = the closed model has more rows or fewer "
                       "classes than was asserted; distinct = distinct (program, history)")
    j = engine.Judge(ctx, "c01")
    stats = {"dumps": 0, "timeouts": 0, "crashes": 0}
    for res in results:
        if res["status"] != "ok":
            continue
        nrules = len(res["prog"]["rules"])
        for fs in res["sets"]:
            asserted = len([f for f in fs["facts"]["facts"] if f[0] != "eq"])
            for run_ in fs["runs"]:
                if run_["status"] == "timeout":
                    stats["timeouts"] += 1
                    continue
                if run_["status"] != "ok":
                    stats["crashes"] += 1
                    ctx.violation({"kind": "history", "program": res["text"], "calls": run_["calls"], "status": run_["status"]},
                                  "the generated code crashed (%s) on an API history" % run_["status"][:80])
                    continue
                d = engine.dumps_of(run_, res["prog"])[-1]
                stats["dumps"] += 1
                nrows = sum(len(v) for v in d["rows"].values())
                nontriv = nrows > asserted or any(r != e for (_, e, r) in d["raw_handles"])
                ctx.count("dump", (res["idx"], str(run_["calls"])) if nontriv else None, nontriv)

                def cb(v, res=res, run_=run_, nrules=nrules):
                    if v == "None":
                        return
                    (_, (r, i, e)) = v[0], v[1] if isinstance(v, tuple) and v[0] == "Some" else (0, 0, [])
                    if r == CANON_CODE:
                        ctx.broken.append("dump is not canonical (reason %s) - see C04; program:\n%s calls: %s" % (i, res["text"], run_["calls"]))
                    elif r == FUNC_CODE:
                        ctx.violation({"kind": "history", "program": res["text"], "calls": run_["calls"], "function": i},
                                      "after close() function #%d is not single-valued" % i)
                    else:
                        ctx.violation({"kind": "history", "program": res["text"], "calls": run_["calls"], "rule": r, "stmt": i,
                                       "assignment": e},
                                      "after close() rule #%d is violated at statement %d under assignment %s" % (r, i, e))
                j.ask(res, "check_closed %%P (%s)" % engine.canon_structure(d, run_["hoe"]), cb)
                if stats["dumps"] == 5:
                    ctx.sample({"program": res["text"], "calls": str(run_["calls"])[:500], "dump": run_["lines"][-1][:400]})
    ctx.cov["runs"] = stats
    done = j.run() if ok_sem else False
    # instance obligations on the emitted rule functions of these programs (translated from the emitted text now):
    # the nested loops enumerate exactly the matches of the flat rule in the comment (C01_ram_matches_flat_sound)
    import os
    import shutil
    import gendrv
    import ram_obligations
    from common import CACHE, sh
    scratch = os.path.join(CACHE, "scratch", "c01ram-%d" % os.getpid())
    try:
        comp_dirs, texts = [], {}
        for res in results:
            if res["status"] != "ok":
                continue
            d = os.path.join(scratch, "p%d" % res["idx"])
            for sub in ("in", "out", "comp"):
                os.makedirs(os.path.join(d, sub))
            open(os.path.join(d, "in", "thy.eql"), "w").write(res["text"])
            rc, out = sh([os.path.join(CACHE, "target", "release", "build-driver"), "component", os.path.join(d, "in"), os.path.join(d, "out"),
                          os.path.join(d, "comp"), os.path.join(os.path.dirname(os.path.dirname(os.path.abspath(__file__))),
                                                                   "harness", "build-driver", "fake_rustc.sh"), "x"], timeout=120)
            if rc == 0:
                comp_dirs.append(("p%d" % res["idx"], os.path.join(d, "comp")))
                texts["p%d" % res["idx"]] = res["text"]
        ram_obligations.ram_obligations(ctx, comp_dirs, pid_for_violation="C01", texts=texts, build=True, tag="c01ram")
    finally:
        shutil.rmtree(scratch, ignore_errors=True)
    ctx.obligation("oracle:closed_b on every final dump", done and not ctx.violations, "%d dumps judged in Coq" % stats["dumps"])
    # per-iteration correspondence between the weighted engine model (the theorems of Props_Tie.v) and the emitted loop
    import engine_tie
    engine_tie.engine_tie(ctx, results, "C01", nprog=8 if quick else None, nhist=4 if quick else None, nmerge=4 if quick else None)
