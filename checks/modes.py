"""Shared pipeline for C09 and C19: every generated program is compiled by /repo's compiler in BOTH build modes,
the generated driver is compiled and linked by rustc against each, and the same histories are run on both."""
import os
import re
import shutil
from concurrent.futures import ProcessPoolExecutor

import gendrv
import progs
from common import CACHE, Rng


wide_program = progs.wide_program


def _one(args):
    seed, idx, scratch, nh, keep_text = args
    rng = Rng(seed).fork("modes-%d" % idx)
    prog = None
    for _ in range(30):
        if idx % 4 == 3:
            prog = wide_program(rng)
        else:
            prog = progs.ProgGen(rng, enums=(idx % 2 == 1), control=(idx % 2 == 1)).gen()
        if prog is not None:
            break
    if idx % 3 == 0:
        # a rule module without routines: the boundary must still be consistent (declared, defined, linked)
        tl = progs.thenless_rule(rng, prog["sig"])
        if tl is not None:
            prog = {"sig": prog["sig"], "rules": prog["rules"] + [tl]}
    text = progs.prog_eql(prog)
    res = {"idx": idx, "prog": prog, "text": text, "module": None, "component": None, "runs": [], "files": {}}
    wm, wc = os.path.join(scratch, "m%d" % idx), os.path.join(scratch, "c%d" % idx)
    bm, sm, lm = gendrv.compile_program(prog, wm, mode="module", text=text)
    bc, sc, lc = gendrv.compile_program(prog, wc, mode="component", text=text)
    res["module"], res["component"] = (sm, lm[-1500:]), (sc, lc[-1500:])
    if keep_text:
        for (w, tag) in ((wm, "module"), (wc, "component")):
            f = os.path.join(w, "out", "thy.eql.rs")
            if os.path.exists(f):
                res["files"][tag] = open(f).read()
        cd = os.path.join(wc, "comp", "thy.eql")
        if os.path.isdir(cd):
            res["files"]["components"] = {f: open(os.path.join(cd, f)).read() for f in sorted(os.listdir(cd)) if f.endswith(".rs")}
            res["files"]["rlibs"] = sorted(f for f in os.listdir(cd) if f.endswith(".rlib"))
    if bm is not None and bc is not None:
        nrel = len(prog["sig"]["rels"])
        for h in range(nh):
            fs = progs.gen_facts(rng, prog["sig"], rules=prog["rules"])
            calls, hoe = progs.history_from_facts(rng, fs, rng.choice(["canon", "perm", "closes", "dups"]))
            obs = [("q", "qi %d" % r) for r in range(nrel) if prog["sig"]["rels"][r]["cols"]] + \
                  [("q", "qt %d" % t) for t in range(prog["sig"]["ntypes"])]
            full = []
            for c in calls:
                if c[0] == "close":
                    full += obs
                full.append(c)
            full += obs
            res["runs"].append({"calls": full, "module": bm.run(full, timeout=20), "component": bc.run(full, timeout=20)})
    res["comp_dir"] = os.path.join(wc, "comp")
    return res


def run_both(ctx, nprog, nh, keep_text=True, keep_dirs=False, tag="modes"):
    scratch = os.path.join(CACHE, "scratch", "%s-%d" % (tag, os.getpid()))
    os.makedirs(scratch, exist_ok=True)
    gendrv.runtime_rlib()
    with ProcessPoolExecutor(max_workers=16) as ex:
        results = list(ex.map(_one, [(ctx.seed, i, scratch, nh, keep_text) for i in range(nprog)]))
    return results, scratch


# ------------------------------------------------------------------ boundary extraction (C19)

def split_module_build(text):
    """-> (text without the embedded `mod <rule> { ... }` blocks and without the digest line, {rule: block body})."""
    lines = text.split("\n")
    out, mods = [], {}
    i = 0
    while i < len(lines):
        m = re.match(r"^mod (\w+) \{$", lines[i])
        if m and i + 1 < len(lines) and lines[i + 1].strip() == "#[allow(unused)]":
            # the block ends where the brace opened by `mod <rule> {` closes (comment lines carry no braces)
            depth = 1
            j = i + 1
            body = []
            while j < len(lines):
                code = lines[j].split("//")[0]
                depth += code.count("{") - code.count("}")
                if depth == 0:
                    break
                body.append(lines[j])
                j += 1
            mods[m.group(1)] = "\n".join(body)
            i = j + 1
            continue
        if lines[i].startswith("// DIGEST: "):
            i += 1
            continue
        out.append(lines[i])
        i += 1
    return "\n".join(out), mods


def parse_structs(text):
    """{StructName: [(field, type)]} for `pub struct XEnv<'a> { ... }`."""
    res = {}
    for m in re.finditer(r"pub struct (\w+Env)<'a> \{\n(.*?)\n\}", text, re.S):
        fields = []
        for ln in m.group(2).split("\n"):
            ln = ln.strip()
            fm = re.match(r"^(\w+): (.+),$", ln)
            if fm:
                fields.append((fm.group(1), fm.group(2)))
        res[m.group(1)] = fields
    return res


def parse_imports(text):
    """[(link name, fn name, env struct)] from the `unsafe extern "Rust"` block."""
    res = []
    for m in re.finditer(r'#\[link_name = "(\w+)"\]\s*safe fn (\w+)\(env: (\w+)\);', text):
        res.append((m.group(1), m.group(2), m.group(3)))
    return res


def parse_exports(text):
    res = []
    for m in re.finditer(r"#\[unsafe\(no_mangle\)\]\s*pub fn (\w+)\(mut env: (\w+)\)", text):
        res.append((m.group(1), m.group(2)))
    return res


# ------------------------------------------------------------------ programs with `model` declarations (C09)

def _member_one(args):
    """Compiles a program of the C17 generator (one model declaration, member predicates, morphisms) in both build
    modes and links a trivial main against each. -> dict(text, module=(status, log), component=(status, log))"""
    import subprocess
    import members_gen
    seed, idx, scratch = args
    case = members_gen.gen_case(seed, idx)
    prog = case[0] if isinstance(case, (tuple, list)) else case["prog"]
    text = members_gen.prog_eql(prog)
    out = {"idx": idx, "text": text}
    bd = os.path.join(CACHE, "target", "release", "build-driver")
    rlib = gendrv.runtime_rlib()
    for mode in ("module", "component"):
        wd = os.path.join(scratch, "mem%d-%s" % (idx, mode))
        shutil.rmtree(wd, ignore_errors=True)
        for sub in ("in", "out", "comp"):
            os.makedirs(os.path.join(wd, sub))
        open(os.path.join(wd, "in", "thy.eql"), "w").write(text)
        from common import sh
        if mode == "module":
            rc, log = sh([bd, "module", os.path.join(wd, "in"), os.path.join(wd, "out")], timeout=300)
        else:
            rc, log = sh([bd, "component", os.path.join(wd, "in"), os.path.join(wd, "out"), os.path.join(wd, "comp"), shutil.which("rustc"), rlib],
                         timeout=900, env={"RAYON_NUM_THREADS": "8"})
        if rc == 1:
            out[mode] = ("rejected", log[-800:])
            continue
        if rc != 0:
            out[mode] = ("compiler_panic", log[-1500:])
            continue
        main = os.path.join(wd, "main.rs")
        open(main, "w").write('#![allow(warnings)]\nmod th { include!("%s"); }\nfn main() { let mut m = th::Thy::new(); m.close(); }\n'
                              % os.path.join(wd, "out", "thy.eql.rs"))
        cmd = ["rustc", "--edition", "2021", "-C", "opt-level=0", "-C", "debuginfo=0", "--cap-lints", "allow", main, "-o", os.path.join(wd, "main"),
               "--extern", "eqlog_runtime=%s" % rlib, "-L", "dependency=%s" % os.path.dirname(rlib)]
        if mode == "component":
            cdir = os.path.join(wd, "comp", "thy.eql")
            cmd += ["-L", "native=%s" % cdir]
            for f in sorted(os.listdir(cdir)):
                if f.endswith(".rlib"):
                    cmd += ["-l", "static:+verbatim=%s" % f]
        rc, log = sh(cmd, timeout=900)
        if rc != 0:
            out[mode] = ("rustc_failed", log[-1500:])
            continue
        p = subprocess.run("ulimit -v 4000000; ulimit -t 20; exec %s" % os.path.join(wd, "main"), shell=True, capture_output=True, text=True)
        out[mode] = ("ok", "") if p.returncode == 0 else ("run_failed", p.stderr[-500:])
        shutil.rmtree(wd, ignore_errors=True)
    return out


def run_member_programs(ctx, n, tag="modes-mem"):
    scratch = os.path.join(CACHE, "scratch", "%s-%d" % (tag, os.getpid()))
    os.makedirs(scratch, exist_ok=True)
    try:
        gendrv.runtime_rlib()
        with ProcessPoolExecutor(max_workers=16) as ex:
            return list(ex.map(_member_one, [(ctx.seed, i, scratch) for i in range(n)]))
    finally:
        shutil.rmtree(scratch, ignore_errors=True)
