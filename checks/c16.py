"""C16 - semi-naive plans enumerate exactly the matches containing a new tuple, once.

Deciding method: Coq theorems about `to_semi_naive` and a sound and complete checker `family_ok` for sub-rule
families (coq/SemiNaive), tied to /repo per program by a translator (translate/flat.py) that reads the EMITTED
rule modules: the flat-rule comment above every rule function, and the `env.<rel>_{new,old}_...` tables that
every premise position of the function binds and consumes. comment <-> code is checked in python, uniformity of
a family (same atoms, variables, conclusions; every sub-rule called exactly once) is checked in python, exactness
of every family is decided by coqc (`check_family` / `check_family_sym` = true). The module-mode file must embed the same
rule-module texts verbatim, so the translation of the component sources covers both build modes.
"""
import json
import os
import shutil
from concurrent.futures import ThreadPoolExecutor

from common import CACHE, Rng
from translate import corpus, flat

LEVEL = "proof"
REQUIRED = ["C16_semi_naive_exact", "C16_semi_naive_exact_perm", "C16_family_ok_sound", "C16_family_ok_complete",
            "C16_family_ok_sym_sound", "C16_sorted_semi_naive_ok"]
AGE_LETTER = {0: "N", 1: "O", 2: "A"}
HEADER = ("From Coq Require Import List NArith Bool.\nImport ListNotations.\n"
          "From SemiNaive Require Import Model Run.\nOpen Scope N_scope.")


def code_age(fields):
    ages = sorted((flat.FIELD.match(f).group("age") if flat.FIELD.match(f) else "?") for f in fields)
    return {("new",): 0, ("old",): 1, ("new", "old"): 2}.get(tuple(ages))


def translate_program(name, text, origin, scratch):
    """Compile in component mode and translate. -> dict(name, rc, families, problems, ...)."""
    r = corpus.build("component", name, text, os.path.join(scratch, "p-" + name), threads=1)
    res = {"name": name, "origin": origin, "rc": r["rc"], "stderr": r["stderr"][:400], "families": [], "comment_code": [],
           "uniform": [], "calls": [], "module_embed": [], "parse_error": None, "subrules": 0, "text": text}
    if r["rc"] != 0:
        shutil.rmtree(r["root"], ignore_errors=True)
        return res
    cdir = os.path.join(r["root"], "comp", name + ".eql")
    # module mode embeds the rule modules as `mod <group> {..}`: the same text, so the translation covers both modes
    m = corpus.build("module", name, text, os.path.join(scratch, "m-" + name), threads=1)
    shutil.rmtree(m["root"], ignore_errors=True)
    mod_text = m["files"].get("out/%s.eql.rs" % name, b"").decode("utf-8", "replace")
    comp_srcs = {k: v.decode("utf-8", "replace") for k, v in r["files"].items() if k.startswith("comp/") and k.endswith(".rs")}
    res["module_embed"] = []
    if m["rc"] != 0:
        res["module_embed"].append("module-mode build fails: %s" % m["stderr"][:150])
    else:
        missing = sorted(k for k, v in comp_srcs.items() if v.strip() not in mod_text)
        if missing:
            res["module_embed"].append("not embedded verbatim in the module-mode file: %s" % missing[:4])
        n_mod = len([l for l in mod_text.split("\n") if l.startswith("// rule ")])
        n_comp = sum(len([l for l in v.split("\n") if l.startswith("// rule ")]) for v in comp_srcs.values())
        if n_mod != n_comp:
            res["module_embed"].append("%d rule functions in the module-mode file, %d in the components" % (n_mod, n_comp))
    try:
        for fn in sorted(os.listdir(cdir)) if os.path.isdir(cdir) else []:
            if not fn.endswith(".rs"):
                continue
            comp = flat.parse_component(os.path.join(cdir, fn), name)
            for sr in comp["subrules"]:
                res["subrules"] += 1
                bad = flat.check_subrule(sr)
                if bad:
                    res["comment_code"].append((sr["name"], bad))
                if comp["calls"].get(sr["name"], 0) != 1:
                    res["calls"].append("%s is called %d times by %s" % (sr["name"], comp["calls"].get(sr["name"], 0), comp["file"]))
            extra = set(comp["calls"]) - {sr["name"] for sr in comp["subrules"]}
            if extra:
                res["calls"].append("%s calls unknown functions %s" % (comp["file"], sorted(extra)))
            for fam in flat.group_families(comp):
                flat.build_family(fam)
                if fam["problems"]:
                    res["uniform"].append((fam["name"], fam["problems"]))
                if fam["kind"] == "exact":
                    idx = sorted(sr.get("index", -1) for sr in fam["subrules"])
                    if idx != list(range(len(idx))):
                        res["uniform"].append((fam["name"], ["sub-rule indices are %s" % idx]))
                if fam["kind"] == "empty" and (len(fam["subrules"]) != 1 or fam["subrules"][0]["binds"]):
                    res["uniform"].append((fam["name"], ["a rule with an empty premise must have exactly one atom-less sub-rule"]))
                if fam["kind"] == "functionality" and (len(fam["subrules"]) != 1 or len(fam["atoms"]) != 2 or
                                                       fam["atoms"][0][0] != fam["atoms"][1][0]):
                    res["uniform"].append((fam["name"], ["the functionality rule must be one sub-rule over two atoms of one relation"]))
                # ages as the CODE has them (the tables bound per position)
                al_code = flat.align(fam, lambda sr, k: code_age(sr["binds"].get(k, []))) if fam["rows"] is not None else None
                rows_code = al_code["rows"] if al_code is not None and al_code["collapsed"] == fam["collapsed"] else None
                if fam["rows"] is not None and rows_code is None and not any(b for _, b in res["comment_code"]):
                    res["comment_code"].append((fam["name"], ["ages of the code cannot be aligned like the ages of the comment"]))
                res["families"].append({
                    "name": fam["name"], "kind": fam["kind"], "n": len(fam["atoms"]), "rows": fam["rows"], "rows_code": rows_code,
                    "atoms": ["%s(%s)" % (a[0], ", ".join(a[1])) for a in fam["atoms"]],
                    "subrules": [sr["name"] for sr in fam["subrules"]], "duplicates": fam["duplicates"],
                    "collapsed": fam["collapsed"], "dropped": fam["dropped"],
                    "reordered": fam.get("reordered", 0), "file": comp["file"]})
    except flat.ParseError as ex:
        res["parse_error"] = str(ex)
    shutil.rmtree(r["root"], ignore_errors=True)
    return res


def run(ctx):
    quick = ctx.tier == "quick"
    ctx.trusted = ["coqc 8.16.1 kernel; vm_compute evaluates check_family / check_family_sym on the translated families",
                   "translate/flat.py: it decides what the atoms, ages, bound tables and families of the emitted code ARE "
                   "(a wrong parse can hide a generator bug; every rule fn must carry a comment, every for/if of a rule fn must be parsed)",
                   "harness/build-driver (real eqlog::process, component mode, fake rustc) and translate/genprog.py"]
    ctx.assumptions = ["a [new]/[old] table holds exactly the new/old tuples and `iter_restrictions`/`get`/`is_empty` enumerate a table "
                       "faithfully (C08, C01-C03)",
                       "labellings range over premise atoms; k identical atoms inside one premise get k ids, numbered inside each "
                       "sub-rule in the age order all < new < old (this recovers the positions of to_semi_naive); if the family is not exact "
                       "under that numbering the copies are collapsed: they match the same tuple, the requirement on it is the conjunction of "
                       "their ages, a sub-rule with a [new] and an [old] copy enumerates nothing and is dropped - the family is then checked "
                       "over the distinct atoms, which is what the property quantifies over",
                       "a rule with an empty premise has one match without tuples, run in every iteration (semi_naive.rs:92 TODO): "
                       "required to be exactly one atom-less sub-rule, counted, neither theorem nor violation",
                       "the implicit functionality rule is exact only up to the symmetry of its two atoms (check_family_sym)"]
    ok, _ = ctx.coq_build("SemiNaive")
    if ok:
        ctx.coq_props("SemiNaive", "Props_C16.v", required=REQUIRED)
    if ctx.cargo_build("build-driver") is None or ctx.cargo_build("rt-driver") is None:
        return
    scratch = os.path.join(CACHE, "scratch", "c16-%d" % os.getpid())
    shutil.rmtree(scratch, ignore_errors=True)
    os.makedirs(scratch)
    try:
        rng = Rng(ctx.seed)
        n_gen, max_atoms = (25, 6) if quick else (470, 8)
        if getattr(ctx, "replay", None):
            rp = json.load(open(ctx.replay))
            programs = [(rp.get("program", "replay"), rp["program_text"], "replay")]
            rejected_gen, rej_samples = 0, []
        else:
            gen, rejected_gen, rej_samples = corpus.generated_programs(rng, n_gen, scratch, max_atoms)
            programs = corpus.seed_programs("C16") + corpus.repo_programs() + gen
        ctx.checker_cmds.append(".cache/target/release/build-driver component <in> <out> <comp> harness/build-driver/fake_rustc.sh <runtime rlib>")
        # biggest first, so that the pool is not left waiting for lex_category at the end
        order = sorted(range(len(programs)), key=lambda i: -len(programs[i][1]))
        results = [None] * len(programs)
        with ThreadPoolExecutor(max_workers=16) as ex:
            for i, r in zip(order, ex.map(lambda i: translate_program(programs[i][0], programs[i][1], programs[i][2], scratch), order)):
                results[i] = r
    finally:
        shutil.rmtree(scratch, ignore_errors=True)

    ctx.cov["rule"] = ("programs = seeds in corpus/C16 + the %d theories of eqlog-test-eval/src (incl. category_mod) + the README "
                       "semilattice + %d generated programs (translate/genprog.py: 1-3 sorts, 2-4 predicates of arity 0-3, 1-3 functions, "
                       "2-5 rules with 1-%d source premise atoms: predicate atoms with repeated variables, wildcards and nested "
                       "applications, `v = f(..)`, `f(..)!`, `v: T`, `a = b`; 30%% two-stage rules; 7%% empty premises); each compiled "
                       "by the real compiler in component mode; one case = one sub-rule family (rule stage) of the emitted code; "
                       "non-trivial = an ordinary family with >=2 premise atoms; distinct = distinct (atoms, binding orders, ages)"
                       % (len(corpus.repo_programs()) - 1, n_gen, max_atoms))
    rejected = [(r["name"], r["origin"], r["stderr"]) for r in results if r["rc"] != 0]
    ctx.cov["programs"] = {"total": len(results), "accepted": len(results) - len(rejected),
                           "rejected_by_compiler": [{"name": n, "origin": o, "message": m[:200]} for n, o, m in rejected],
                           "generated_candidates_rejected": rejected_gen,
                           "generated_rejection_samples": [m for _, m in rej_samples]}
    for n, o, m in rejected:
        if o != "generated":
            ctx.obligation("accepted:%s" % n, False, "corpus program rejected by the compiler: %s" % m[:200])
            ctx.broken.append("corpus program %s (%s) is rejected by the compiler" % (n, o))

    fams = []          # (program result, family)
    sizes, patterns, kinds, natoms = {}, {}, {}, {}
    reordered = dups = subrules = collapsed = dropped = 0
    for r in results:
        if r["rc"] != 0:
            continue
        subrules += r["subrules"]
        if r["parse_error"]:
            ctx.obligation("translate:%s" % r["name"], False, r["parse_error"])
            ctx.broken.append("translator cannot read the emitted code of %s: %s" % (r["name"], r["parse_error"][:200]))
            continue
        ctx.obligation("comment-code:%s" % r["name"], not r["comment_code"],
                       "%d sub-rules: every [new] position binds and consumes only a *_new_* table, [old] only *_old_*, [all] both "
                       "copies of one order; pushes = conclusions" % r["subrules"] if not r["comment_code"] else str(r["comment_code"][:2])[:300])
        ctx.obligation("uniform:%s" % r["name"], not r["uniform"] and not r["calls"],
                       "%d families: same atom multiset, variables, conclusions in all sub-rules; indices 0..k-1; each called once"
                       % len(r["families"]) if not (r["uniform"] or r["calls"]) else str((r["uniform"] + r["calls"])[:2])[:300])
        ctx.obligation("module-embeds:%s" % r["name"], not r["module_embed"],
                       "module-mode .eql.rs contains every rule module of the component build verbatim and no other rule function"
                       if not r["module_embed"] else str(r["module_embed"])[:300])
        for f in r["families"]:
            fams.append((r, f))
            kinds[f["kind"]] = kinds.get(f["kind"], 0) + 1
            sizes[len(f["subrules"])] = sizes.get(len(f["subrules"]), 0) + 1
            natoms[f["n"]] = natoms.get(f["n"], 0) + 1
            reordered += f["reordered"]
            dups += 1 if f["duplicates"] else 0
            collapsed += 1 if f["collapsed"] else 0
            dropped += len(f["dropped"])
            for row in f["rows"] or []:
                p = "".join(AGE_LETTER[a] for _, a in row)
                patterns[p] = patterns.get(p, 0) + 1
            nontriv = f["kind"] == "exact" and f["n"] >= 2
            ctx.count("family", json.dumps([f["atoms"], f["rows"]]) if nontriv else None, nontriv)
    top = sorted(patterns.items(), key=lambda kv: (-kv[1], kv[0]))
    ctx.cov["families"] = {"total": len(fams), "by_kind": kinds, "sub_rules": subrules,
                           "histogram_sub_rules_per_family": {str(k): v for k, v in sorted(sizes.items())},
                           "histogram_premise_atoms": {str(k): v for k, v in sorted(natoms.items())},
                           "age_patterns_in_binding_order_top40": dict(top[:40]), "distinct_age_patterns": len(patterns),
                           "sub_rules_with_reordered_premise": reordered, "families_with_identical_atoms": dups,
                           "families_with_identical_atoms_decided_after_collapsing_copies": collapsed,
                           "unsatisfiable_sub_rules_dropped(new and old copy of one atom)": dropped,
                           "rules_with_empty_premise": kinds.get("empty", 0)}
    for r, f in fams[:400:97]:
        ctx.sample({"program": r["name"], "family": f["name"], "atoms": f["atoms"], "rows(atom id, age 0=new 1=old 2=all)": str(f["rows"])})

    # ---- exactness of every family, decided by coqc
    todo = [(r, f) for r, f in fams if f["kind"] in ("exact", "functionality") and f["rows"] is not None]
    verdict = {}
    if ok and todo:
        nshard = 16
        shards = [todo[i::nshard] for i in range(nshard)]
        shards = [s for s in shards if s]
        bodies = [["[" + "; ".join("%s %s" % ("check_family" if f["kind"] == "exact" else "check_family_sym", flat.coq_family(f["rows"]))
                                   for _, f in s) + "]"] for s in shards]
        try:
            res = ctx.coq_eval("SemiNaive", "c16", bodies, HEADER)
            for s, val in zip(shards, res):
                vals = val[0]
                if len(vals) != len(s):
                    raise RuntimeError("shard answered %d of %d families" % (len(vals), len(s)))
                for (r, f), v in zip(s, vals):
                    verdict[(r["name"], f["name"])] = (v == "true")
        except Exception as ex:
            ctx.broken.append("model evaluation failed: %s" % str(ex)[:300])
            verdict = None
    elif not ok:
        verdict = None

    nviol = 0
    per_prog = {}
    for r, f in todo:
        sym = f["kind"] == "functionality"
        py = flat.failing_labelling(f["rows"], f["n"], sym)
        v = verdict.get((r["name"], f["name"])) if verdict is not None else None
        per_prog.setdefault(r["name"], []).append(v)
        code_differs = f["rows_code"] is not None and f["rows_code"] != f["rows"]
        if v is True and py is None and not code_differs:
            continue
        if v is True and py is not None:
            ctx.broken.append("python enumeration and check_family disagree on %s/%s" % (r["name"], f["name"]))
            continue
        # search: the labelling that is enumerated 0 or >=2 times (code ages when the comment and the code differ)
        cands = []
        if code_differs:
            cands.append(("code", f["rows_code"]))
        cands.append(("comment", f["rows"]))
        wit, rows, src = None, f["rows"], "comment"
        for nm, rw in cands:
            w = flat.failing_labelling(rw, f["n"], sym)
            if w is not None:
                wit, rows, src = w, rw, nm
                break
        if wit is not None and nviol < 5:
            nviol += 1
            lab, cnt, want = wit
            ctx.violation({"kind": "program", "program": r["name"], "program_text": r["text"], "family": f["name"],
                           "component_file": f["file"], "atoms": f["atoms"], "sub_rules": f["subrules"],
                           "rows": [[list(p) for p in row] for row in rows], "ages_from": src,
                           "identical_atoms_collapsed": f["collapsed"], "labelling_new": lab, "enumerated_by": cnt, "expected": want},
                          "family %s of %s: the match whose tuples are labelled new=%s (atoms %s) is enumerated by %d sub-rules, expected %s"
                          % (f["name"], r["name"], lab, f["atoms"], cnt, want))
        elif wit is None and (v is False or code_differs):
            ctx.broken.append("family %s of %s: %s" % (f["name"], r["name"], "check_family = false but no failing labelling found" if v is False
                                                      else "comment and code ages differ, both families are exact"))
    for name, vs in per_prog.items():
        ctx.obligation("families:%s" % name, verdict is not None and all(v is True for v in vs),
                       "%d families: check_family / check_family_sym = true" % len(vs))
    # a comment/code mismatch or a non-uniform family with a concrete program is a violation carrying the program
    for r in results:
        if r["rc"] == 0 and not r["parse_error"] and (r["comment_code"] or r["uniform"] or r["calls"] or r["module_embed"]) \
                and nviol < 5 and not ctx.violations:
            nviol += 1
            ctx.violation({"kind": "program", "program": r["name"], "program_text": r["text"],
                           "comment_code": r["comment_code"][:5], "uniform": r["uniform"][:5], "calls": r["calls"][:5],
                           "module_embed": r["module_embed"]},
                          "emitted rule modules of %s: %s" % (r["name"], str((r["comment_code"] + r["uniform"] + r["calls"] + r["module_embed"])[:2])[:300]))
