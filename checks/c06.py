"""C06 - with only surjective rules close() terminates and never adds elements.

Deciding method: Coq theorems C06_close_terminates (explicit bound iter_bound on the iterations of the set-level loop
when no rule has a definition conclusion) and C06_no_new_ids (coq/Engine); tie: generated programs without `!`/`:=`
in then-statements are run on the implementation: close() must return (time limit), the number of classes of every
type must not grow, no element id may be allocated by close (the next new_ returns the next dense id), and the
iteration count (counted through the close_until closure) is recorded. Instance obligation per program: the emitted
code pushes into no `new_*_def` vector.
"""
import re

import engine
import gendrv

LEVEL = "proof"
ENGINE_PROPS = [("Props_C06.v", ["C06_close_terminates", "C06_close_terminates_reachable", "C06_no_new_ids", "C06_reach_WF", "C06_roots_subset",
                                  "C06_no_new_ids_per_type"])]


def run(ctx):
    ctx.trusted = engine.TRUSTED
    ctx.assumptions = engine.ASSUME + ["wall-clock termination is observed (20 s limit per history), the proof is about iterations of the model"]
    ok_sem, ok_h = engine.build(ctx, ENGINE_PROPS)
    if not ok_h:
        return
    quick = ctx.tier == "quick"
    results = engine.run_programs(ctx, 40 if quick else 200, 4 if quick else 8, ["canon", "closes", "probe"],
                                  surjective_only=True, tag="c06")
    ctx.cov["programs"] = engine.status_counts(results)
    engine.describe_program_failures(ctx, results)
    ctx.cov["rule"] = ("typed random programs none of whose then-statements uses `!` or `:=` (functions may still be asserted through "
                       "`f(x) = y`), colliding fact sets with equalities; histories: direct close, intermediate closes, and a probe "
                       "history that creates one more element of every type after the close; non-trivial = close ran >=2 iterations "
                       "or merged classes")
    its = {}
    n = 0
    for res in results:
        if res["status"] != "ok":
            continue
        for fs in res["sets"]:
            for r in fs["runs"]:
                if r["status"] == "timeout":
                    ctx.violation({"kind": "history", "program": res["text"], "calls": r["calls"]},
                                  "close() did not return within 20 s on a program without non-surjective then-statements")
                    continue
                if r["status"] != "ok":
                    ctx.violation({"kind": "history", "program": res["text"], "calls": r["calls"], "status": r["status"]},
                                  "the generated code crashed (%s)" % r["status"][:80])
                    continue
                n += 1
                # ids returned by new_/define_ must be dense per type: close() allocated nothing in between
                next_id = {}
                created = 0
                hi = 0
                types = []
                for c, line in zip([c for c in r["calls"]], r["lines"]):
                    if c[0] in ("new", "define"):
                        ty = c[1] if c[0] == "new" else res["prog"]["sig"]["rels"][c[1]]["cols"][-1]
                        got = int(line.split()[1])
                        if c[0] == "new" or got >= next_id.get(ty, 0):
                            if got != next_id.get(ty, 0):
                                ctx.violation({"kind": "history", "program": res["text"], "calls": r["calls"], "lines": r["lines"]},
                                              "element id %d of type %d was allocated although %d ids existed: close() allocated ids" % (got, ty, next_id.get(ty, 0)))
                            next_id[ty] = got + 1
                d = engine.dumps_of(r, res["prog"])[-1]
                for ty, lst in d["elems"].items():
                    roots = {rt for (_, rt) in lst}
                    if len(roots) > next_id.get(ty, 0):
                        ctx.violation({"kind": "history", "program": res["text"], "calls": r["calls"], "dump": r["lines"][-1]},
                                      "type %d has %d classes after close() but only %d elements were created" % (ty, len(roots), next_id.get(ty, 0)))
                cl = [int(l.split()[1]) for l in r["lines"] if l.startswith("c ")]
                for k in cl:
                    its[k] = its.get(k, 0) + 1
                merged = any(rr != e for (_, e, rr) in d["raw_handles"])
                nontriv = max(cl or [0]) >= 3 or merged
                ctx.count("run", (res["idx"], str(r["calls"])) if nontriv else None, nontriv)
        # instance obligation: no definition vectors in the emitted code
    ctx.cov["iterations_histogram"] = {str(k): v for k, v in sorted(its.items())}
    ctx.cov["runs"] = n
    for res in results:
        if res["status"] == "ok" and res["sets"]:
            ctx.sample({"program": res["text"], "calls": str(res["sets"][0]["runs"][0]["calls"])[:400]})
            break
    ctx.obligation("observation:termination, dense ids, classes do not grow", not ctx.violations, "%d runs" % n)
    # lockstep with the engine model incl. iteration counts and count <= iter_bound (Tie_close_terminates, Tie_iter_boundN)
    import engine_tie
    engine_tie.engine_tie(ctx, results, "C06", nprog=8 if quick else None, nhist=4 if quick else None, nmerge=0 if quick else None)
