"""C13 - compilation is deterministic.

Proof for schedules, validation for programs and layouts:
  * Coq theorems (coq/Build, Props_C13.v): with distinct rule-module names the parallel component build writes
    pairwise disjoint paths, steps on different paths commute, hence the final tree does not depend on the
    interleaving. Instance obligation per accepted program: rule-module (component) names are distinct.
    Programs whose rule names collide with implicitly generated groups (`functionality_<func>`,
    `anonymous_rule_<id>`) must be REJECTED (seeds corpus/C13/collide_*.eql; accepting one is a violation:
    two components would race on the same files).
  * Byte comparison: every program is compiled by the real eqlog::process (harness/build-driver) in component
    mode (fake rustc) and module mode with RAYON_NUM_THREADS in {1,2,16}, twice each, in two absolute in/out
    directory pairs of different path length, with a different HOME and a large extra environment variable; all
    generated text files (module .eql.rs, component .rs) and all digests must be byte-identical per mode.
  * Source scan of /repo/eqlog/src for unordered containers / time / randomness on the generation path.
"""
import hashlib
import json
import os
import re
import shutil
from concurrent.futures import ThreadPoolExecutor

from common import CACHE, REPO, Rng
from translate import corpus

LEVEL = "proof"
REQUIRED = ["C13_schedule_indep", "C13_paths_disjoint", "C13_steps_commute", "C13_build_succeeds"]
FINDING_COLLISION = "component-name-collision"

SCAN = r"HashMap|HashSet|RandomState|Instant|SystemTime|thread_rng"
SCAN_EXTRA = r"par_bridge|par_iter|read_dir|env::var|current_dir|process::id|thread::current"
# (file, pattern) pairs that were read and judged; anything else found by SCAN is unreviewed
REVIEWED = {
    ("error.rs", "HashSet"): "COMPILE_ERROR_KIND_ORDER: a set of pairs of error kinds, used through `contains` only (its "
                             "construction iterates it, but a transitive closure does not depend on insertion order); it "
                             "orders which compile error is REPORTED, nothing of it reaches generated text",
}
REVIEWED_EXTRA = {
    ("build.rs", "par_bridge"): "the component build; covered by C13_schedule_indep given distinct component names",
    ("build.rs", "read_dir"): "directory listing order only decides the order in which theories are processed and stale files "
                              "are removed, every file's content is a function of its own theory",
    ("build.rs", "env::var"): "cargo/hook environment (OUT_DIR etc. and EQLOG_VERIF_*), selects directories, not contents",
    ("build.rs", "current_dir"): "process_root only",
}

LAYOUTS = ["a", os.path.join("b-a-much-longer-directory-name-so-that-every-absolute-path-has-another-length", "nested", "deeper")]
PAD = {"VERIF_PADDING_FOR_C13": "x" * 100000, "LANG": "C.UTF-8", "TZ": "Pacific/Kiritimati"}


def configs():
    out = []
    for mode in ("component", "module"):
        for ti, threads in enumerate((1, 2, 16)):
            for rep in (0, 1):
                out.append({"mode": mode, "threads": threads, "run": rep, "layout": (rep + ti) % 2, "other_home_and_env": rep == 1})
    return out


def run_config(scratch, idx, name, text, cfg):
    root = os.path.join(scratch, LAYOUTS[cfg["layout"]], "p%d-%s-%s-%d-%d" % (idx, name, cfg["mode"], cfg["threads"], cfg["run"]))
    home = os.path.join(scratch, "home-%d" % cfg["run"], "x" * (7 * cfg["run"]))
    r = corpus.build(cfg["mode"], name, text, root, threads=cfg["threads"], home=home,
                     extra_env=PAD if cfg["other_home_and_env"] else None)
    shutil.rmtree(root, ignore_errors=True)
    return r


def scan_sources(ctx):
    src = os.path.join(REPO, "eqlog", "src")
    hits, extra, unreviewed = [], [], []
    for root, _, files in os.walk(src):
        for f in sorted(files):
            if not f.endswith(".rs"):
                continue
            rel = os.path.relpath(os.path.join(root, f), src)
            for ln, line in enumerate(open(os.path.join(root, f), encoding="utf-8", errors="replace"), 1):
                code = line.split("//")[0]
                for m in re.finditer(SCAN, code):
                    why = REVIEWED.get((rel, m.group(0)))
                    hits.append({"file": "eqlog/src/" + rel, "line": ln, "pattern": m.group(0), "text": line.strip()[:120],
                                 "judgement": why or "UNREVIEWED"})
                    if why is None:
                        unreviewed.append("%s:%d %s" % (rel, ln, m.group(0)))
                for m in re.finditer(SCAN_EXTRA, code):
                    extra.append({"file": "eqlog/src/" + rel, "line": ln, "pattern": m.group(0),
                                  "judgement": REVIEWED_EXTRA.get((rel, m.group(0)), "not reviewed (informational pattern)")})
    files_with = sorted({h["file"] for h in hits})
    ctx.cov["source_scan"] = {"pattern": SCAN, "hits": hits, "files_with_hits": files_with,
                              "informational_pattern": SCAN_EXTRA, "informational_hits": extra,
                              "note": "ordered collections (BTreeMap/BTreeSet/Vec) everywhere else on the path source -> flat rules -> "
                                      "index selection -> RAM -> text; the eqlog-eqlog model iterates BTree-backed tables"}
    ctx.obligation("scan:unordered-containers-time-randomness", not unreviewed,
                   "%d hits of /%s/ in eqlog/src, all in reviewed places (%s)" % (len(hits), SCAN, ", ".join(files_with) or "none")
                   if not unreviewed else "unreviewed uses: %s" % unreviewed[:5])
    if unreviewed:
        ctx.broken.append("unordered container / time / randomness on the generation path was not reviewed: %s" % unreviewed[:5])


def component_names(files, name):
    """(link names declared by the module, component source files) of a component-mode build."""
    mod = files.get("out/%s.eql.rs" % name, b"").decode("utf-8", "replace")
    links = re.findall(r'#\[link_name = "([^"]+)"\]', mod)
    srcs = sorted(os.path.basename(p)[:-3] for p in files if p.startswith("comp/") and p.endswith(".rs"))
    return links, srcs


def run(ctx):
    quick = ctx.tier == "quick"
    ctx.trusted = ["coqc 8.16.1 kernel (schedule theorems)", "harness/build-driver (real eqlog::process), fake rustc, the byte comparison",
                   "the source scan is a grep with a hand-reviewed allow list, not an analysis"]
    ctx.assumptions = ["determinism of the sequential passes is VALIDATED on the corpus, not proved (the model cannot see iteration orders "
                       "inside Rust containers)", "rustc itself is replaced by a fake that copies its input; .rlib files are not compared",
                       "same compiler build, same file name: the property allows dependence on those",
                       "stdout (cargo:rustc-link-lib lines) is not a generated file; its line order follows the schedule and is only recorded"]
    ok, _ = ctx.coq_build("Build")
    if ok:
        ctx.coq_props("Build", "Props_C13.v", required=REQUIRED)
    scan_sources(ctx)
    if ctx.cargo_build("build-driver") is None or ctx.cargo_build("rt-driver") is None:
        return
    scratch = os.path.join(CACHE, "scratch", "c13-%d" % os.getpid())
    shutil.rmtree(scratch, ignore_errors=True)
    os.makedirs(scratch)
    try:
        rng = Rng(ctx.seed)
        seeds = corpus.seed_programs("C13")
        expect_reject = [s for s in seeds if s[0].startswith("collide_")]
        seeds = [s for s in seeds if not s[0].startswith("collide_")]
        repo = corpus.repo_programs()
        if getattr(ctx, "replay", None):
            rp = json.load(open(ctx.replay))
            programs = [(rp.get("program", "replay"), rp["program_text"], "replay")]
            expect_reject = []
        elif quick:
            big = sorted(repo, key=lambda p: -len(p[1]))[:2]
            rest = rng.shuffle([p for p in repo if p not in big])[:max(0, 6 - len(seeds))]
            gen, _, _ = corpus.generated_programs(rng, 4, scratch, 6)
            programs = seeds + big + rest + gen
        else:
            gen, _, _ = corpus.generated_programs(rng, 100, scratch, 8)
            programs = seeds + repo + gen
        cfgs = configs()
        ctx.cov["rule"] = ("programs = seeds corpus/C13 + %s; each accepted program is built %d times: modes {component (fake rustc), module} x "
                           "RAYON_NUM_THREADS {1,2,16} x 2 runs, alternating between two absolute directory layouts of different path "
                           "length, second run with another HOME, a 100 kB extra environment variable and other LANG/TZ; compared per mode: "
                           "module .eql.rs, every component .rs, every .digest (bytes). Expected-reject seeds collide_*.eql: a user rule "
                           "named like an implicit rule group. non-trivial = a program with >=2 rule modules; distinct = distinct programs"
                           % ("the 2 largest + 5 random repository theories + 4 generated programs (12 with the seed)" if quick else
                              "all repository theories (eqlog-test-eval, category_mod, README semilattice) + 100 generated programs", len(cfgs)))
        ctx.cov["configurations"] = cfgs
        ctx.checker_cmds.append("RAYON_NUM_THREADS=<1|2|16> HOME=<..> .cache/target/release/build-driver <module|component> <in> <out> [...]")

        # ---- expected-reject seeds
        for (name, text, origin) in expect_reject:
            verdicts = []
            for mode in ("component", "module"):
                r = corpus.build(mode, name, text, os.path.join(scratch, "reject-%s-%s" % (name, mode)), threads=16)
                shutil.rmtree(r["root"], ignore_errors=True)
                verdicts.append((mode, r["rc"], r["stderr"][:160]))
                if r["rc"] == 0:
                    links, srcs = component_names(r["files"], name)
                    ctx.violation({"kind": "program", "program": name, "program_text": text, "mode": mode, "origin": origin,
                                   "link_names": links, "component_sources": srcs},
                                  "%s build accepts %s although a rule name collides with an implicitly generated rule group: two rule "
                                  "modules share one name (same symbol, and in component mode the same .rs/.rlib/.digest written concurrently)"
                                  % (mode, origin), finding_key=FINDING_COLLISION)
            ctx.obligation("rejects-collision:%s" % name, all(rc != 0 for _, rc, _ in verdicts),
                           "; ".join("%s: rc=%d %s" % v for v in verdicts)[:300])
            ctx.count("reject", None, False)

        # ---- byte comparison
        jobs = [(pi, ci) for pi in range(len(programs)) for ci in range(len(cfgs))]
        # heavy programs first
        jobs.sort(key=lambda j: (-len(programs[j[0]][1]), j[1]))

        def one(j):
            pi, ci = j
            name, text, _ = programs[pi]
            return run_config(scratch, pi, name, text, cfgs[ci])
        with ThreadPoolExecutor(max_workers=12) as ex:
            outs = list(ex.map(one, jobs))
        by_prog = {}
        for (pi, ci), r in zip(jobs, outs):
            by_prog.setdefault(pi, {})[ci] = r
    finally:
        shutil.rmtree(scratch, ignore_errors=True)

    nfiles = nbuilds = 0
    build_secs = {}
    stdout_order_varies = []
    rejected = []
    nviol = 0
    modules_hist = {}
    for pi, (name, text, origin) in enumerate(programs):
        runs = by_prog[pi]
        rcs = {ci: runs[ci]["rc"] for ci in runs}
        nbuilds += len(runs)
        build_secs[name] = round(sum(runs[ci]["secs"] for ci in runs), 1)
        if any(rc != 0 for rc in rcs.values()):
            if all(rc != 0 for rc in rcs.values()):
                rejected.append({"program": name, "origin": origin, "message": runs[0]["stderr"][:200]})
                if origin != "generated":
                    ctx.obligation("accepted:%s" % name, False, "corpus program rejected by the compiler: %s" % runs[0]["stderr"][:200])
                    ctx.broken.append("corpus program %s (%s) is rejected by the compiler" % (name, origin))
                continue
            a = [ci for ci in rcs if rcs[ci] == 0][0]
            b = [ci for ci in rcs if rcs[ci] != 0][0]
            ctx.violation({"kind": "program", "program": name, "program_text": text, "config_a": cfgs[a], "config_b": cfgs[b],
                           "stderr_b": runs[b]["stderr"][:400]},
                          "%s is accepted under one configuration and fails under another (rc %d vs %d)" % (name, rcs[a], rcs[b]))
            continue
        # instance obligation: rule-module names distinct
        comp0 = [ci for ci in runs if cfgs[ci]["mode"] == "component"][0]
        links, srcs = component_names(runs[comp0]["files"], name)
        distinct = len(set(links)) == len(links) and sorted(links) == srcs and len({s.lower() for s in srcs}) == len(srcs)
        ctx.obligation("names-distinct:%s" % name, distinct,
                       "%d rule modules, link names = component sources, pairwise distinct" % len(srcs) if distinct else
                       "link names %s vs component sources %s" % (sorted(links)[:6], srcs[:6]))
        modules_hist[len(srcs)] = modules_hist.get(len(srcs), 0) + 1
        if not distinct:
            dupn = sorted({x for x in links if links.count(x) > 1})
            ctx.violation({"kind": "program", "program": name, "program_text": text, "link_names": links, "component_sources": srcs},
                          "accepted program %s has rule modules that are not distinct: %s" % (name, dupn or "link names differ from files"),
                          finding_key=FINDING_COLLISION)
        ctx.count("program", hashlib.sha256(text.encode()).hexdigest() if len(srcs) >= 2 else None, len(srcs) >= 2)
        same = True
        for mode in ("component", "module"):
            cis = sorted(ci for ci in runs if cfgs[ci]["mode"] == mode)
            ref = runs[cis[0]]
            nfiles += len(ref["files"])
            for ci in cis[1:]:
                f0, f1 = ref["files"], runs[ci]["files"]
                if f0 != f1:
                    same = False
                    diff = sorted(set(f0) ^ set(f1)) + sorted(k for k in f0 if k in f1 and f0[k] != f1[k])
                    if nviol < 5:
                        nviol += 1
                        first = diff[0]
                        ctx.violation({"kind": "program", "program": name, "program_text": text, "config_a": cfgs[cis[0]], "config_b": cfgs[ci],
                                       "differing_files": diff[:20],
                                       "sha256_a": hashlib.sha256(f0.get(first, b"")).hexdigest(), "sha256_b": hashlib.sha256(f1.get(first, b"")).hexdigest()},
                                      "generated files of %s differ between two %s builds (%s): %s" % (name, mode, origin, diff[:5]))
                    break
            outs_raw = {runs[ci]["stdout"].replace(runs[ci]["root"], "<root>") for ci in cis}
            if mode == "component" and len(outs_raw) > 1:
                stdout_order_varies.append(name)
        ctx.obligation("bytes-identical:%s" % name, same, "%d builds, all generated text files and digests byte-identical per mode" % len(runs))
    ctx.cov["byte_comparison"] = {"programs": len(programs), "rejected_by_compiler": rejected, "builds": nbuilds,
                                  "files_compared_per_reference_build": nfiles, "build_seconds_per_program": build_secs,
                                  "histogram_rule_modules_per_program": {str(k): v for k, v in sorted(modules_hist.items())},
                                  "programs_whose_stdout_differs_between_runs(link line order or paths; not a generated file)": stdout_order_varies}
    ctx.cov["expected_reject_seeds"] = [s[0] for s in expect_reject]
    if programs:
        ctx.sample({"program": programs[0][0], "origin": programs[0][2], "configs": len(cfgs)})
