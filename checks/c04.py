"""C04 - closed models are canonical and every query path gives the same answer; all redundant internal copies
of a relation describe one and the same set of tuples.

Deciding method
  (proof)  coq/Coherent: a model of one relation stored in a family of index copies whose four update paths are
           interpreted from a *descriptor*; `wf_desc d = true -> Coherent` is preserved by insert_, by every step
           of canonicalize, by the composed canonicalize (which also restores canonicity) and by move_new_to_old;
           queries through any copy agree; C04_reachable: every history of the update paths of a whole module.
  (tie a)  instance obligation: translate/desc.py reads the text the compiler emits NOW for every generated
           program, every function of the impl block must match its template, and `check_desc` (= wf_desc,
           guards decided over all n! equality patterns of the columns) is evaluated in Coq for every relation.
  (tie b)  every private field of the generated struct is dumped (inspect.rs, compiled into the module) at every
           point where close_until evaluates its condition, after every close and after every API call; every
           dumped state is judged in Coq by the verified `check_state` (coherent_b_sound).
  (tie c)  black box after close(): iterators yield each tuple once and only roots, iter_<type> one representative
           per class, p(args) / f(args) agree with the iterators and do not change when an argument is replaced
           by an equal non-root element.
"""
import json
import os
import shutil
import sys

import engine
import gendrv
import progs
from common import CACHE, Rng, tail

sys.path.insert(0, os.path.dirname(os.path.dirname(os.path.abspath(__file__))))
from translate import desc as tdesc  # noqa: E402

LEVEL = "proof"
REQUIRED = ["C04_insert_coherent", "C04_remove_row_coherent", "C04_canon_row_coherent", "C04_move_coherent",
            "C04_canonicalize_coherent", "C04_queries_agree_member", "C04_queries_agree_iter", "C04_iter_unique",
            "C04_holds_iff_iter", "C04_holds_equal_args", "C04_guard_decision_sound", "C04_coherent_b_sound",
            "C04_coherent_b_complete", "C04_check_state_sound", "C04_reachable", "C04_reachable_partial"]
REASONS = {1: "a copy holds a duplicate or a tuple of the wrong length", 2: "the copy does not denote {rows of its age} /\\ its diagonal",
           3: "new /\\ old is not empty", 4: "the element index misses an occurrence", 5: "a row contains a non-root at a canonical point",
           8: "a row contains a non-root that is not pending in `uprooted`", 6: "`uprooted` is not empty at a canonical point",
           7: "the type sets do not partition the roots", 9: "dump and descriptor disagree on the number of relations"}


# ---------------------------------------------------------------------------------- generator bias

class DiagProgGen(progs.ProgGen):
    """progs.ProgGen plus: predicates with several columns of one type, and rules whose premise atoms repeat a
    variable twice, three times, or carry two pairs (x,y,x,y), and `x = f(x, x)`; conclusions include equalities
    (merges) so that canonicalize rewrites rows onto / off diagonals."""

    def gen_sig(self):
        r = self.rng
        sig = super().gen_sig()
        nt = sig["ntypes"]
        t = r.below(nt)
        u = r.below(nt)
        extra = [{"name": "da", "cols": [t, t, t], "func": False}]
        if r.chance(2, 3):
            extra.append({"name": "db", "cols": [t, u, t, u], "func": False})
        if r.chance(1, 2):
            extra.append({"name": "dc", "cols": [u, u], "func": False})
        if r.chance(1, 2):
            extra.append({"name": "dg", "cols": [t, t, t], "func": True})
        sig["rels"] = extra + sig["rels"]
        return sig

    def diag_rule(self, sig):
        r = self.rng
        rels = sig["rels"]
        byname = {x["name"]: i for i, x in enumerate(rels)}
        V = lambda i: ("var", i)
        shapes = []
        da = byname["da"]
        shapes += [("pred", da, [V(0), V(0), V(1)]), ("pred", da, [V(0), V(0), V(0)]), ("pred", da, [V(0), V(1), V(0)]),
                   ("pred", da, [V(1), V(0), V(0)]), ("pred", da, [V(0), V(0), V(0)])]
        if "db" in byname:
            db = byname["db"]
            shapes += [("pred", db, [V(0), V(1), V(0), V(1)]), ("pred", db, [V(0), V(1), V(0), V(1)])]
            if rels[db]["cols"][0] == rels[db]["cols"][1]:
                shapes += [("pred", db, [V(0), V(0), V(0), V(0)]), ("pred", db, [V(0), V(0), V(1), V(1)])]
            else:
                shapes += [("pred", db, [V(0), V(1), V(0), V(2)]), ("pred", db, [V(0), V(1), V(2), V(1)])]
        if "dc" in byname:
            shapes += [("pred", byname["dc"], [V(0), V(0)])]
        if "dg" in byname:
            shapes += [("eq", V(0), ("app", byname["dg"], [V(0), V(0)])), ("eq", V(1), ("app", byname["dg"], [V(0), V(0)]))]
        def atom_types(a):
            out = {}
            if a[0] == "pred":
                for t, c in zip(a[2], rels[a[1]]["cols"]):
                    out[t[1]] = c
            else:       # x = f(args)
                f = a[2][1]
                out[a[1][1]] = rels[f]["cols"][-1]
                for t, c in zip(a[2][2], rels[f]["cols"][:-1]):
                    out[t[1]] = c
            return out

        def rename(a, m):
            if a[0] == "pred":
                return ("pred", a[1], [V(m.get(t[1], t[1])) for t in a[2]])
            return ("eq", V(m.get(a[1][1], a[1][1])), ("app", a[2][1], [V(m.get(t[1], t[1])) for t in a[2][2]]))
        first = r.choice(shapes)
        rule = [("if", first)]
        if r.chance(1, 3):
            second = r.choice(shapes)
            t1, t2 = atom_types(first), atom_types(second)
            m = {v: v + 3 for v in t2 if v in t1 and t1[v] != t2[v]}     # keep shared variables only where the types agree
            rule.append(("if", rename(second, m)))
        vt = progs.var_types(sig, rule)
        bound = sorted(vt)
        # conclusions over bound variables
        for _ in range(1 + r.below(2)):
            k = r.below(10)
            if k < 4:
                cands = [(a, b) for a in bound for b in bound if a < b and vt[a] == vt[b]]
                if cands:
                    a, b = r.choice(cands)
                    rule.append(("then", ("eq", V(a), V(b))))
                    continue
            preds = [i for i, x in enumerate(rels) if not x["func"] and all(any(vt[v] == c for v in bound) for c in x["cols"])]
            if preds:
                p = r.choice(preds)
                rule.append(("then", ("pred", p, [V(r.choice([v for v in bound if vt[v] == c])) for c in rels[p]["cols"]])))
        if not any(k == "then" for (k, _) in rule):
            return None
        return progs.fix_single_vars(rule)

    def gen(self):
        sig = self.gen_sig()
        rules = []
        for _ in range(1 + self.rng.below(3)):
            ru = self.diag_rule(sig)
            if ru is not None:
                rules.append(ru)
        for _ in range(self.rng.below(1 + self.max_rules // 2)):
            ru = self.gen_rule(sig)
            if ru is not None:
                rules.append(ru)
        if not rules:
            return None
        return {"sig": sig, "rules": rules}


def extra_facts(rng, sig, fs):
    """Rows near the diagonals of every relation with repeated column types, and extra equalities (merges)."""
    elems, facts = fs["elems"], fs["facts"]
    by_type = lambda t: [i for i, ty in enumerate(elems) if ty == t]
    for ri, rel in enumerate(sig["rels"]):
        cols = rel["cols"]
        if len(cols) < 2 or len(set(cols)) == len(cols) or not all(by_type(c) for c in cols):
            continue
        for _ in range(1 + rng.below(4)):
            pick = {}
            row = []
            for c in cols:
                if c in pick and rng.chance(1, 2):
                    row.append(pick[c])
                else:
                    e = rng.choice(by_type(c))
                    pick[c] = e
                    row.append(e)
            facts.append(("row", ri, row))
    for t in range(sig["ntypes"]):
        if len(by_type(t)) >= 2 and rng.chance(3, 4):
            for _ in range(1 + rng.below(2)):
                a, b = rng.choice(by_type(t)), rng.choice(by_type(t))
                if a != b:
                    facts.append(("eq", t, a, b))
    return fs


INSPECT = ("q", "x inspect")


def with_inspection(calls, every):
    """Insert `x inspect` after every close (and after every mutating call when `every`)."""
    out = []
    for c in calls:
        if c[0] == "dump":
            continue
        out.append(c)
        if c[0] == "close" or (every and c[0] in ("insert", "equate", "define")):
            out.append(INSPECT)
    if not out or out[-1] != INSPECT:
        out.append(INSPECT)
    return out


def split_output(calls, lines):
    """-> list of (call index, canonical?, 'X ...' line) in order, and the answers of the other calls by index."""
    states, answers = [], {}
    pos = 0
    prev_close = False
    for ci, c in enumerate(calls):
        if c[0] == "close":
            while pos < len(lines) and lines[pos].startswith("X "):
                states.append((ci, True, lines[pos]))
                pos += 1
            if pos >= len(lines) or not lines[pos].startswith("c "):
                raise ValueError("close without answer at call %d" % ci)
            answers[ci] = lines[pos]
            pos += 1
            prev_close = True
            continue
        if pos >= len(lines):
            raise ValueError("missing output for call %d" % ci)
        if c == INSPECT:
            states.append((ci, prev_close, lines[pos]))
        else:
            answers[ci] = lines[pos]
            if c[0] != "q":
                prev_close = False
        pos += 1
    if pos != len(lines):
        raise ValueError("%d unread output lines" % (len(lines) - pos))
    return states, answers


def worker(args):
    (seed, idx, scratch, nfacts, variants, _surj, _cu, max_rules, opts) = args
    rng = Rng(seed).fork("c04prog%d" % idx)
    fixed = opts.get("histories")
    if opts.get("program") is not None:
        prog = opts["program"]
    elif str(idx) in opts.get("corpus", {}):
        prog = opts["corpus"][str(idx)]["prog"]
        fixed = opts["corpus"][str(idx)]["histories"]
    else:
        g = DiagProgGen(rng, max_rules=max_rules)
        prog = None
        for _ in range(20):
            prog = g.gen()
            if prog is not None:
                break
        if prog is None:
            return {"idx": idx, "status": "nogen"}
    text = progs.prog_eql(prog)
    wd = os.path.join(scratch, "p%d" % idx)
    built, status, log = gendrv.compile_program(prog, wd, text=text, inspect=True, build_driver=opts.get("build_driver"))
    res = {"idx": idx, "prog": prog, "text": text, "status": status, "log": log[-3000:], "runs": []}
    if built is None:
        shutil.rmtree(wd, ignore_errors=True)
        return res
    res["desc"] = built.desc
    sig = prog["sig"]
    ntimeouts, tmo = 0, opts.get("timeout", 10)
    for fi in range(nfacts if fixed is None else len(fixed)):
        if fixed is not None:
            hist = [(("fixed", fixed[fi]))]
        else:
            fs = extra_facts(rng, sig, progs.gen_facts(rng, sig, rules=prog["rules"]))
            hist = []
            for v in variants:
                calls, _hoe = progs.history_from_facts(rng, fs, "closes" if v == "merge" else v)
                if v == "merge":
                    # more merges and re-assertions after the model has been closed once: canonicalize on old rows
                    types = [c[1] if c[0] == "new" else sig["rels"][c[1]]["cols"][-1] for c in calls if c[0] in ("new", "define")]
                    nh = len(types)
                    tail_calls = []
                    if nh >= 2:
                        for _ in range(1 + rng.below(3)):
                            a, b = rng.below(nh), rng.below(nh)
                            if a != b and types[a] == types[b]:
                                tail_calls.append(("equate", types[a], a, b))
                        ins = [c for c in calls if c[0] == "insert"]
                        for c in rng.shuffle(ins)[:2]:
                            tail_calls.append(c)
                    calls = calls + tail_calls + [("close",)]
                hist.append((v, calls))
        for (v, calls) in hist:
            calls = with_inspection([tuple(c) if not isinstance(c, tuple) else c for c in calls], every=(v in ("canon", "fixed")))
            q1 = [("q", "qi %d" % r) for r in range(len(sig["rels"]))] + [("q", "qt %d" % t) for t in range(sig["ntypes"])]
            if ntimeouts >= 2:
                break
            lines, st = built.run(calls + q1, timeout=tmo)
            if st == "timeout":
                ntimeouts += 1
            run = {"variant": v, "calls": calls, "status": st, "lines": lines, "probes": [], "answers": []}
            if st == "ok":
                try:
                    probes = make_probes(rng, prog, built.desc, calls, q1, lines)
                    run["probes"] = probes
                    if probes:
                        lines2, st2 = built.run(calls + [("q", p["call"]) for p in probes], timeout=2 * tmo)
                        if st2 != "ok":
                            run["status"] = "probe-" + st2
                        else:
                            run["answers"] = lines2[-len(probes):]
                except Exception as ex:  # reported by the parent as broken machinery
                    run["status"] = "parse:%s" % str(ex)[:200]
            res["runs"].append(run)
    built.cleanup()
    return res


def type_snakes(prog, d):
    """The struct lists the types in the compiler's order, not in declaration order: map by name."""
    by = {t["name"]: t["snake"] for t in d["types"]}
    return [by[progs.tname(i)] for i in range(prog["sig"]["ntypes"])]


def make_probes(rng, prog, d, calls, q1, lines):
    """Query probes with RAW ids from the final state: every iterated tuple, the same with arguments replaced by equal
    non-root elements, and tuples that are not in the relation."""
    sig = prog["sig"]
    n1 = len(q1)
    main, qlines = lines[:len(lines) - n1], lines[len(lines) - n1:]
    states, _ = split_output(calls, main)
    insp = tdesc.parse_inspect(states[-1][2], d)
    snake = type_snakes(prog, d)                         # indexed by the PROGRAM's type numbers
    roots = [insp["R"][s] for s in snake]                # per type: root of element i
    cls = [{} for _ in snake]
    for t, rs in enumerate(roots):
        for e, rt in enumerate(rs):
            cls[t].setdefault(rt, []).append(e)
    probes = []
    for ri, rel in enumerate(sig["rels"]):
        cols = rel["cols"]
        body = qlines[ri][3:].strip()
        if not cols:
            probes.append({"kind": "p0", "rel": ri, "call": "x qp %d" % ri})
            continue
        rows = [[int(x) for x in tok.split(",")] for tok in body.split()]
        rowset = set(tuple(r) for r in rows)
        for row in rows[:6]:
            variants = [list(row)]
            alt = list(row)
            changed = False
            for j, c in enumerate(cols if not rel["func"] else cols[:-1]):
                others = [e for e in cls[c].get(row[j], []) if e != row[j]]
                if others:
                    alt[j] = rng.choice(others)
                    changed = True
            if changed:
                variants.append(alt)
            for a in variants:
                if rel["func"]:
                    probes.append({"kind": "f", "rel": ri, "args": a[:-1], "expect": row[-1], "call": "x qf %d %s" % (ri, " ".join(map(str, a[:-1])))})
                else:
                    probes.append({"kind": "p", "rel": ri, "args": a, "expect": 1, "call": "x qp %d %s" % (ri, " ".join(map(str, a)))})
        # tuples over existing elements; expectation from the iterator (rooted)
        if all(len(roots[c]) > 0 for c in cols):
            for _ in range(3):
                a = [rng.below(len(roots[c])) for c in cols]
                ra = tuple(roots[c][x] for x, c in zip(a, cols))
                if rel["func"]:
                    vals = [r[-1] for r in rows if tuple(r[:-1]) == ra[:-1]]
                    probes.append({"kind": "f", "rel": ri, "args": a[:-1], "expect": vals[0] if len(vals) == 1 else ("-" if not vals else "?"),
                                   "call": "x qf %d %s" % (ri, " ".join(map(str, a[:-1])))})
                else:
                    probes.append({"kind": "p", "rel": ri, "args": a, "expect": 1 if ra in rowset else 0,
                                   "call": "x qp %d %s" % (ri, " ".join(map(str, a)))})
    return probes


# ---------------------------------------------------------------------------------- judging

def judge_queries(ctx, res, run, stats):
    """Black-box query agreement on the final (closed) state."""
    prog, d = res["prog"], res["desc"]
    sig = prog["sig"]
    calls = run["calls"]
    nq = len(sig["rels"]) + sig["ntypes"]
    main, qlines = run["lines"][:len(run["lines"]) - nq], run["lines"][len(run["lines"]) - nq:]
    states, _ = split_output(calls, main)
    if not states or not states[-1][1]:
        return          # the history does not end with close(): nothing is promised about canonicity
    stats["closed_models_queried"] += 1
    insp = tdesc.parse_inspect(states[-1][2], d)
    snake = type_snakes(prog, d)
    roots = [insp["R"][s] for s in snake]
    fname = {f["name"]: f for f in d["fields"]}
    drel = {r["name"]: r for r in d["rels"]}

    def bad(what, **kw):
        rep = {"kind": "query", "program": res["text"], "calls": calls, "state": states[-1][2]}
        rep.update(kw)
        ctx.violation(rep, what)
    for ri, rel in enumerate(sig["rels"]):
        cols = rel["cols"]
        if not cols:
            continue
        body = qlines[ri][3:].strip()
        rows = [tuple(int(x) for x in tok.split(",")) for tok in body.split()]
        stats["iter_rows"] += len(rows)
        if len(set(rows)) != len(rows):
            bad("iter_%s yields a tuple twice" % rel["name"], relation=rel["name"], rows=rows)
        for r in rows:
            if any(roots[c][x] != x for x, c in zip(r, cols)):
                bad("iter_%s yields a non-root element after close()" % rel["name"], relation=rel["name"], row=r)
        # the iterator is the union of the primary indices (white box, cheap cross-check of the dump itself)
        dr = drel[rel["name"]]
        prim = []
        for key in ("prim_new", "prim_old"):
            f = fname[dr["indices"][dr[key][0]]]
            cs = tdesc.stored_cols(f["order"], f["diag"], len(cols))
            for t in insp["I"][f["name"]]:
                row = [None] * len(cols)
                for x, c in zip(t, cs):
                    row[c] = x
                prim.append(tuple(row))
        if sorted(prim) != sorted(rows):
            bad("iter_%s differs from the primary indices" % rel["name"], relation=rel["name"], rows=rows, primary=prim)
    for t in range(sig["ntypes"]):
        body = qlines[len(sig["rels"]) + t][3:].strip()
        els = [int(x) for x in body.split()]
        want = [e for e, rt in enumerate(roots[t]) if rt == e]
        if sorted(els) != want or len(set(els)) != len(els):
            bad("iter_%s does not yield exactly one representative per class" % snake[t], type=snake[t], got=els, roots=want)
    for p, ans in zip(run["probes"], run["answers"]):
        stats["probes"] += 1
        if p["kind"] in ("p", "p0"):
            if p["kind"] == "p0":
                continue
            got = ans.split()[1]
            if got != str(p["expect"]):
                bad("%s(%s) = %s but the iterator says %s" % (sig["rels"][p["rel"]]["name"], p["args"], got, p["expect"]), probe=p)
        else:
            got = ans.split()[1]
            if p["expect"] == "?":
                continue
            if got != str(p["expect"]):
                bad("%s(%s) = %s but the iterator says %s" % (sig["rels"][p["rel"]]["name"], p["args"], got, p["expect"]), probe=p)


def state_stats(d, insp, canon, stats):
    fname = {f["name"]: f for f in d["fields"]}
    nt = len(d["types"])
    for r in d["rels"]:
        for key in ("prim_new", "prim_old"):
            prim = fname[r["indices"][r[key][0]]]
            age = prim["age"]
            nrows = len(insp["I"][prim["name"]])
            for fn in r["indices"]:
                f = fname[fn]
                if f["diag"] is not None and f["age"] == age:
                    acc = len(insp["I"][fn])
                    stats["diag_accepted"] += acc
                    stats["diag_rejected"] += max(0, nrows - acc)
        if not canon:
            snake = [t["snake"] for t in d["types"]]
            for key in ("prim_new", "prim_old"):
                prim = fname[r["indices"][r[key][0]]]
                cs = tdesc.stored_cols(prim["order"], prim["diag"], r["arity"])
                for t in insp["I"][prim["name"]]:
                    if any(insp["R"][snake[r["cols"][c]]][x] != x for x, c in zip(t, cs)):
                        stats["rows_to_rewrite"] += 1


HEADER = "Require Import List NArith. Import ListNotations.\nRequire Import Coherent.Model Coherent.Run.\nOpen Scope N_scope.\n"


def run(ctx):
    ctx.trusted = ["coqc 8.16.1 kernel; vm_compute evaluates wf_desc and the verified check_state",
                   "translate/desc.py (text -> descriptor; every function of the impl block is matched against its template, "
                   "anything else fails), the generated inspect.rs, lib/gendrv.py, harness/build-driver, rustc, the dump parser",
                   "PrefixTree = finite set of tuples (C08), Unification = root function (coq/UF)"]
    ctx.assumptions = ["fragment of gen/progs.py plus diagonal-biased rules (no models / enums: translate/desc.py fails loudly on them)",
                       "element ids of different types are made distinct by gid = id * ntypes + type before judging",
                       "weights are printed but not judged (they only choose the surviving root)"]
    import time
    phase = {}
    t0 = time.time()
    ok, _ = ctx.coq_build("Coherent")
    phase["coq_build"] = round(time.time() - t0, 1)
    if ok:
        ctx.coq_props("Coherent", "Props_C04.v", required=REQUIRED)
    b1 = ctx.cargo_build("build-driver")
    b2 = ctx.cargo_build("rt-driver")
    phase["props+cargo"] = round(time.time() - t0 - phase["coq_build"], 1)
    ctx.cov["phase_s"] = phase
    if not ok or b1 is None or b2 is None:
        return
    t1 = time.time()
    quick = ctx.tier == "quick"
    opts = {}
    bd = os.environ.get("VERIF_C04_BUILD_DRIVER")
    if bd:
        opts["build_driver"] = bd
    nprog = int(os.environ.get("VERIF_C04_NPROG", "0")) or (32 if quick else 300)
    if getattr(ctx, "replay", None):
        rep = json.load(open(ctx.replay))
        if "prog" in rep:
            opts["program"] = rep["prog"]
            opts["histories"] = [[tuple(c) if c[0] != "q" else ("q", c[1]) for c in rep["calls"]]]
            nprog = 1
    corpus = load_corpus() if not opts.get("program") else []
    # corpus entries (hand-written seeds, minimised failures) run first, in the same pool: indices 1000+
    opts["corpus"] = {str(1000 + ci): {"prog": c["prog"], "histories": c["histories"]} for ci, c in enumerate(corpus)}
    indices = [1000 + ci for ci in range(len(corpus))] + list(range(nprog))
    results = engine.run_programs(ctx, nprog, 2 if quick else 6, ["canon", "closes", "dups", "merge"] if quick else
                                  ["canon", "perm", "closes", "dups", "merge"], max_rules=4,
                                  tag="c04", worker=worker, opts=opts, indices=indices)
    phase["compile+run"] = round(time.time() - t1, 1)
    t2 = time.time()
    ctx.cov["programs"] = engine.status_counts(results)
    engine.describe_program_failures(ctx, results)
    ctx.cov["rule"] = ("typed random programs of gen/progs.py extended with predicates da(T,T,T), db(T,U,T,U), dc(U,U), function dg(T,T)->T "
                       "and 1-3 rules whose premise atoms repeat a variable 2x, 3x or carry two pairs, `x = dg(x,x)`, conclusions with "
                       "equalities; 2 (quick) / 6 fact sets per program (rows near the diagonals, merges), 4 / 5 histories each "
                       "(creation order / [permuted] / intermediate closes / duplicates / merges after the first close); inspected: every "
                       "condition-evaluation point of every close, after every close, and after every API call in the creation-order "
                       "histories and the corpus; non-trivial = a state with at least one non-empty diagonal index or a pending uprooted element; "
                       "distinct = distinct (program, state)")
    stats = {"index_fields": 0, "diagonal_fields": 0, "relations": 0, "states": 0, "states_canonical": 0, "distinct_states": 0,
             "diag_accepted": 0, "diag_rejected": 0, "rows_to_rewrite": 0, "runs": 0, "timeouts": 0, "iter_rows": 0, "probes": 0,
             "desc_failed": 0, "triple_var_fields": 0, "two_pair_fields": 0,
             "closed_models_queried": 0}
    shards = [[] for _ in range(16)]
    load = [0] * 16
    reported = {}
    pending = []      # per program: (res, [(expr, callback)])
    for res in results:
        if res["status"] == "desc_failed":
            stats["desc_failed"] += 1
            ctx.broken.append("translate/desc.py does not recognise the emitted text: %s\nprogram:\n%s" % (res["log"][:400], res["text"]))
            continue
        if res["status"] != "ok":
            continue
        d = res["desc"]
        i = res["idx"]
        idxf = [f for f in d["fields"] if f["kind"] == "index"]
        stats["index_fields"] += len(idxf)
        stats["diagonal_fields"] += len([f for f in idxf if f["diag"] is not None])
        for f in idxf:
            if f["diag"] is not None:
                cnt = {}
                for e in f["diag"]:
                    cnt[e] = cnt.get(e, 0) + 1
                if any(v >= 3 for v in cnt.values()):
                    stats["triple_var_fields"] += 1
                if len([v for v in cnt.values() if v >= 2]) >= 2:
                    stats["two_pair_fields"] += 1
        stats["relations"] += len(d["rels"])
        exprs = []

        def cb_desc(v, res=res, d=d):
            for ri, okk in enumerate(v):
                name = "wf_desc:p%d:%s" % (res["idx"], d["rels"][ri]["name"])
                if okk == "true":
                    ctx.obligation(name, True, "")
                else:
                    ctx.obligation(name, False, "generator obligation fails for relation %s" % d["rels"][ri]["name"])
                    ctx.violation({"kind": "descriptor", "program": res["text"], "prog": res["prog"], "relation": d["rels"][ri]["name"],
                                   "descriptor": {k: d["rels"][ri][k] for k in ("indices", "ins", "rm_new", "rm_old", "mv_fill", "mv_clear", "epush", "contains")}},
                                  "wf_desc is false for relation %s of an emitted module: an update path misses a copy or uses a wrong guard"
                                  % d["rels"][ri]["name"], found_input=True)
        exprs.append(("map check_desc ds%d" % i, cb_desc))
        seen = {}
        for run_ in res["runs"]:
            stats["runs"] += 1
            if run_["status"] in ("timeout", "probe-timeout"):
                stats["timeouts"] += 1
                continue
            if run_["status"].startswith("parse:"):
                ctx.broken.append("driver output not understood (%s)" % run_["status"])
                continue
            if run_["status"] != "ok":
                ctx.violation({"kind": "history", "program": res["text"], "prog": res["prog"], "calls": run_["calls"], "status": run_["status"]},
                              "the generated code crashed (%s) on an API history" % run_["status"][:80])
                continue
            nq = len(res["prog"]["sig"]["rels"]) + res["prog"]["sig"]["ntypes"]
            try:
                states, _ = split_output(run_["calls"], run_["lines"][:len(run_["lines"]) - nq])
            except ValueError as ex:
                ctx.broken.append("driver output not understood: %s" % ex)
                continue
            for (ci, canon, line) in states:
                stats["states"] += 1
                stats["states_canonical"] += 1 if canon else 0
                key = (canon, line)
                insp = tdesc.parse_inspect(line, d)
                nontriv = any(insp["I"][f["name"]] for f in idxf if f["diag"] is not None) or any(insp["U"][t["snake"]] for t in d["types"])
                ctx.count("state", (i, key) if nontriv else None, nontriv)
                if key in seen:
                    continue
                seen[key] = True
                stats["distinct_states"] += 1
                state_stats(d, insp, canon, stats)

                def cb_state(v, res=res, d=d, run_=run_, ci=ci, canon=canon, line=line):
                    if v == 0:
                        return
                    ri, k, reason = v // 100000 - 1, (v % 100000) // 100, v % 100
                    stats["incoherent_states"] = stats.get("incoherent_states", 0) + 1
                    reported[(res["idx"], ri, k, reason)] = reported.get((res["idx"], ri, k, reason), 0) + 1
                    if reported[(res["idx"], ri, k, reason)] > 2:
                        return      # the same field of the same program: two replays are enough
                    field = d["rels"][ri]["indices"][k] if 0 <= ri < len(d["rels"]) and k < len(d["rels"][ri]["indices"]) else None
                    rel = d["rels"][ri]["name"] if 0 <= ri < len(d["rels"]) else None
                    ctx.violation({"kind": "state", "program": res["text"], "prog": res["prog"], "calls": run_["calls"][:ci + 1], "at_call": ci,
                                   "canonical_point": canon, "relation": rel, "field": field, "reason": REASONS.get(reason, str(reason)),
                                   "code": v, "state": line},
                                  "incoherent internal state after call %d (%s): relation %s field %s: %s"
                                  % (ci, "condition-evaluation point / after close" if canon else "after an API call", rel, field,
                                     REASONS.get(reason, reason)))
                exprs.append(("check_state ds%d %s %s" % (i, "true" if canon else "false", tdesc.state_coq(d, insp)), cb_state))
            try:
                judge_queries(ctx, res, run_, stats)
            except Exception as ex:
                ctx.broken.append("query judging failed: %s: %s" % (type(ex).__name__, str(ex)[:200]))
            if stats["runs"] == 3:
                ctx.sample({"program": res["text"], "calls": str(run_["calls"])[:400], "state": states[-1][2][:400] if states else ""})
        s = load.index(min(load))
        load[s] += len(exprs)
        shards[s].append(("Definition ds%d : list rel_desc := (%s)%%nat." % (i, tdesc.descs_coq(d)), exprs))
    ctx.cov["numbers"] = stats
    phase["judge_python"] = round(time.time() - t2, 1)
    t3 = time.time()
    # evaluate in Coq
    jobs = []
    for sh in shards:
        prelude = "\n".join(p for (p, _) in sh)
        exprs = [e for (_, es) in sh for (e, _) in es]
        cbs = [cb for (_, es) in sh for (_, cb) in es]
        jobs.append((prelude, exprs, cbs))
    done = False
    try:
        vals = engine.coq_run(ctx, "Coherent", "c04", [(p, e) for (p, e, _) in jobs], HEADER, timeout=3000)
        for (p, e, cbs), vs in zip(jobs, vals):
            for cb, v in zip(cbs, vs):
                cb(v)
        done = True
    except Exception as ex:
        ctx.broken.append("evaluation of check_desc / check_state in Coq failed: %s" % str(ex)[:500])
    phase["coq_eval"] = round(time.time() - t3, 1)
    nviol = len(ctx.violations)
    ctx.obligation("oracle:check_state on every inspected state", done and nviol == 0,
                   "%d distinct states (%d inspected, %d at canonical points) judged in Coq" % (
                       stats["distinct_states"], stats["states"], stats["states_canonical"]))
    if not opts.get("program") and (stats["diagonal_fields"] == 0 or stats["triple_var_fields"] == 0 or stats["two_pair_fields"] == 0):
        ctx.broken.append("the generated programs contain no diagonal index with a 3x repeated variable / two pairs - the check would be vacuous")


def load_corpus():
    d = os.path.join(os.path.dirname(os.path.dirname(os.path.abspath(__file__))), "corpus", "C04")
    out = []
    if os.path.isdir(d):
        for f in sorted(os.listdir(d)):
            if f.endswith(".json"):
                c = json.load(open(os.path.join(d, f)))
                c["histories"] = [[tuple(x) if x[0] != "q" else ("q", x[1]) for x in h] for h in c["histories"]]
                for h in c["histories"]:
                    for j, x in enumerate(h):
                        h[j] = tuple(list(y) if isinstance(y, list) else y for y in x)
                out.append(c)
    return out
