"""C09 - every accepted program yields Rust that compiles, in both build modes.

Deciding method: the verdict of rustc on the emitted code is the ground truth (translation validation, program by
program, both build modes, the driver is linked against the result); the part of "compiles" that is logic is proved:
Theorem C09_wf_scoped_progress (coq/Ram) - a rule function whose translated body passes `wf_scoped` never uses an
unbound variable or set, an undeclared field or a prefix tree of the wrong arity - and `wf_scoped` is evaluated in Coq
on every rule function of every program, translated from the emitted text on this run.
"""
import shutil

import engine
import modes
import ram_obligations

LEVEL = "translation_validation"


def run(ctx):
    ctx.trusted = ["rustc (its verdict IS the property)", "coqc 8.16.1 kernel (wf_scoped obligations)", "translate/ram.py, lib/gendrv.py, "
                   "harness/build-driver"]
    ctx.assumptions = ["identifiers are generated outside the Rust keyword / generator-collision list, relations have <= 9 columns",
                       "typing and borrow checking of the emitted Rust are rustc's, not modelled"]
    ok, _ = ctx.coq_build("Ram")
    if ok:
        ctx.coq_props("Ram", "Props_Ram.v", required=["C09_wf_scoped_progress"])
    if ctx.cargo_build("build-driver") is None or ctx.cargo_build("rt-driver") is None:
        return
    quick = ctx.tier == "quick"
    results, scratch = modes.run_both(ctx, 24 if quick else 300, 1, keep_text=False, tag="c09")
    try:
        counts = {}
        comp_dirs, texts = [], {}
        for res in results:
            for mode in ("module", "component"):
                st, log = res[mode]
                counts["%s:%s" % (mode, st)] = counts.get("%s:%s" % (mode, st), 0) + 1
                nontriv = st == "ok"
                ctx.count("prog", (res["idx"], mode) if nontriv else None, nontriv)
                if st == "compiler_panic":
                    ctx.violation({"kind": "program", "program": res["text"], "mode": mode, "log": log},
                                  "the compiler panicked or crashed on a program (%s build)" % mode)
                elif st == "rustc_failed":
                    ctx.violation({"kind": "program", "program": res["text"], "mode": mode, "log": log},
                                  "rustc rejected the code generated for an accepted program (%s build)" % mode)
            if res["module"][0] != res["component"][0] and "rejected" in (res["module"][0], res["component"][0]):
                ctx.violation({"kind": "program", "program": res["text"], "module": res["module"][0], "component": res["component"][0]},
                              "the two build modes disagree on whether the program is accepted")
            if res["component"][0] == "ok":
                comp_dirs.append(("p%d" % res["idx"], res["comp_dir"]))
                texts["p%d" % res["idx"]] = res["text"]
            for r in res["runs"]:
                for mode in ("module", "component"):
                    lines, st = r[mode]
                    if st.startswith("crash"):
                        ctx.violation({"kind": "history", "program": res["text"], "mode": mode, "calls": r["calls"], "status": st},
                                      "the linked program crashed at run time (%s build)" % mode)
        ctx.cov["programs"] = len(results)
        ctx.cov["disagreements_checked"] = sum(1 for r in results if r["module"][0] == "ok" and r["component"][0] == "ok")
        ctx.cov["outcomes"] = counts
        ctx.cov["rule"] = ("random programs incl. enums/match/branch, and 'wide' programs with relations of 5-9 columns and functions "
                           "of 4-8 arguments; each compiled in module mode and in component mode (one rlib per rule, real rustc), driver "
                           "linked, one history run")
        for res in results:
            if res["module"][0] == "ok":
                ctx.sample({"program": res["text"][:800], "module": res["module"][0], "component": res["component"][0]})
                break
        # programs with a `model` declaration (member predicates with 0-3 columns, morphisms): both build modes + rustc
        mem = modes.run_member_programs(ctx, 8 if quick else 80, tag="c09mem")
        for r in mem:
            for mode in ("module", "component"):
                st, log = r[mode]
                counts["member-%s:%s" % (mode, st)] = counts.get("member-%s:%s" % (mode, st), 0) + 1
                ctx.count("prog", ("mem", r["idx"], mode) if st == "ok" else None, st == "ok")
                if st in ("compiler_panic", "rustc_failed", "run_failed"):
                    ctx.violation({"kind": "program", "program": r["text"], "mode": mode, "log": log},
                                  "%s for an accepted program with a model declaration (%s build)" % (
                                      {"compiler_panic": "the compiler panicked", "rustc_failed": "rustc rejected the generated code",
                                       "run_failed": "the linked program crashed in close()"}[st], mode))
        ctx.cov["outcomes"] = counts
        if ok and comp_dirs:
            summ = ram_obligations.ram_obligations(ctx, comp_dirs, pid_for_violation=None, texts=texts, build=False, tag="c09")
            ctx.cov["rule_functions"] = summ
    finally:
        shutil.rmtree(scratch, ignore_errors=True)
