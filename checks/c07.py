"""C07 - close_until honours its contract and can be resumed.

Deciding method: Coq theorems C07_cu_true / C07_cu_false / C07_cu_sound / C07_cu_resume about the set-level model of the
emitted loop (coq/Engine; the loop applies pending definitions before an early return) and Sem_close_until_contract;
tie: on generated programs x fact sets, close_until(cond) is called with conditions that become true during closing,
that are true from the start, and that never become true; the driver re-evaluates cond after the return, the dump at
the stop is judged in Coq (closed iff false was returned; homomorphic image inside the reference free model), and the
dump after a subsequent close() must be isomorphic to the reference free model (= what a direct close() gives).
"""
import engine
import c02

LEVEL = "proof"
ENGINE_PROPS = [("Props_C07.v", ["C07_cu_true", "C07_cu_false", "C07_cu_sound", "C07_cu_resume_inv", "C07_cu_resume", "C07_cu_resume_iso"])]


def run(ctx):
    ctx.trusted = engine.TRUSTED
    ctx.assumptions = engine.ASSUME + ["conditions are monotone combinations (and/or) of p(..), f(..)!, a = b over caller elements",
                                       "C07_cu_resume_iso (the resumed close is isomorphic to the direct close) is proved for the engine model under the typing "
                                       "side conditions WellTyped / FamErase; per case it is also established against the reference free model"]
    ok_sem, ok_h = engine.build(ctx, ENGINE_PROPS)
    if not ok_h:
        return
    quick = ctx.tier == "quick"
    results = engine.run_programs(ctx, 30 if quick else 150, 3 if quick else 6, ["canon"], cu=True, tag="c07")
    ctx.cov["programs"] = engine.status_counts(results)
    engine.describe_program_failures(ctx, results)
    ctx.cov["rule"] = ("as C01, plus per fact set up to 4 close_until runs: conditions drawn from facts of the directly closed model "
                       "(so they become true during closing, some only after definitions), conjunctions/disjunctions of them, and random "
                       "atoms (mostly never true); each run: assertions; close_until(c); dump; close(); dump. non-trivial = close_until "
                       "returned true in a state that is not yet closed")
    j = engine.Judge(ctx, "c07")
    stats = {"cu_runs": 0, "returned_true": 0, "returned_false": 0, "early_not_closed": 0, "timeouts": 0, "reference_diverged": 0}
    for res in results:
        if res["status"] != "ok":
            continue
        for fs in res["sets"]:
            canon = engine.coq_list([engine.progs.call_coq(c) for c in fs["canon"]])
            for r in fs["runs"]:
                if r["variant"] != "cu":
                    continue
                if r["status"] == "timeout":
                    stats["timeouts"] += 1
                    continue
                if r["status"] != "ok":
                    ctx.violation({"kind": "history", "program": res["text"], "calls": r["calls"], "status": r["status"]},
                                  "the generated code crashed (%s)" % r["status"][:80])
                    continue
                stats["cu_runs"] += 1
                u = [l for l in r["lines"] if l.startswith("u ")][0].split()
                ret, after = u[1] == "1", u[2] == "1"
                stats["returned_true" if ret else "returned_false"] += 1
                rep = {"kind": "history", "program": res["text"], "calls": r["calls"], "cond": r["cond"], "lines": r["lines"][-4:]}
                if ret and not after:
                    ctx.violation(rep, "close_until returned true but the condition does not hold in the returned state")
                if (not ret) and after:
                    ctx.violation(rep, "close_until returned false but the condition holds in the returned state")
                ds = engine.dumps_of(r, res["prog"])
                stop, final = ds[0], ds[1]
                s_stop, s_final = engine.canon_structure(stop, r["hoe"]), engine.canon_structure(final, r["hoe"])

                def cb_closed(v, ret=ret, rep=rep, r=r, res=res):
                    closed = (v == "None")
                    if not ret and not closed:
                        ctx.violation(rep, "close_until returned false in a state that is not closed: %s" % (v,))
                    if ret and not closed:
                        stats["early_not_closed"] += 1
                    ctx.count("cu", (res["idx"], str(r["calls"])) if (ret and not closed) else None, ret and not closed)
                j.ask(res, "check_closed %%P (%s)" % s_stop, cb_closed)

                def cb_ref(v, rep=rep):
                    if v == "None":
                        stats["reference_diverged"] += 1
                        return
                    hom, iso = v[1]
                    if hom != "true":
                        ctx.violation(rep, "the state in which close_until stopped contains an element, tuple or equality that the free model does not force")
                    if iso != 0:
                        ctx.violation(rep, "close() after close_until does not reach the model of a direct close(): %s" % c02.ISO_WHY.get(iso))
                j.ask(res, "cu_judge %d %%P %s (%s) (%s)" % (engine.FUEL, canon, s_stop, s_final), cb_ref)
                if stats["cu_runs"] == 3:
                    ctx.sample({"program": res["text"], "calls": str(r["calls"])[:500], "result": " ".join(u)})
    done = j.run() if ok_sem else False
    ctx.cov["runs"] = stats
    import engine_tie
    engine_tie.engine_tie(ctx, [], "C07", nprog=0, nhist=4 if quick else None, nmerge=6 if quick else None)
    ctx.obligation("oracle:close_until contract, soundness of the stop state, resumption", done and not ctx.violations,
                   "%d close_until runs" % stats["cu_runs"])
