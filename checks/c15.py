"""C15 - elements of enum types always destructure into a constructor case.

Deciding method: Coq theorem C15_enum_inv / C15_case_total (coq/Engine: in every state reachable without a plain
new_ on an enum type and with definitions into enum types only through constructors, every element of an enum type is a
constructor value) + per-program instance obligations read from the emitted API (new_<enum> takes a case, the internal
allocator is private and called only from define_ of constructors, define_ exists for no other function into the enum)
+ on the implementation: <enum>_case on EVERY element of every enum type after every close (must not panic, must
return a constructor application equal to the element), and new_<enum>(case) followed by <enum>_cases contains the case.
"""
import os
import re
import shutil

import engine
import gendrv
import progs
from common import CACHE, Rng

LEVEL = "proof"
ENGINE_PROPS = [("Props_C15.v", ["C15_enum_inv", "C15_case_total", "C15_new_enum_roundtrip"])]


def api_obligations(text, prog):
    """Instance obligations on the emitted module text. Returns list of (name, ok, detail)."""
    out = []
    sig = prog["sig"]
    for ty, ctors in sig.get("enums", {}).items():
        T = progs.tname(ty)
        t = gendrv.snake(T)
        m = re.search(r"pub fn new_%s\(&mut self,\s*([^)]*)\)" % t, text)
        out.append(("api:new_%s takes a case" % t, bool(m) and "%sCase" % T in m.group(1), m.group(0) if m else "missing"))
        out.append(("api:new_%s_internal is private" % t, re.search(r"pub fn new_%s_internal" % t, text) is None, ""))
        callers = set()
        for fm in re.finditer(r"\n(?:pub )?fn (\w+)\([^)]*\)[^{]*\{", text):
            name = fm.group(1)
            body_start = fm.end()
            nxt = re.search(r"\n(?:pub )?fn \w+\(", text[body_start:])
            body = text[body_start: body_start + nxt.start()] if nxt else text[body_start:]
            if "new_%s_internal(" % t in body and name != "new_%s_internal" % t:
                callers.add(name)
        allowed = {"define_%s" % sig["rels"][c]["name"] for c in ctors}
        out.append(("api:new_%s_internal only called by constructor define_" % t, callers <= allowed, str(sorted(callers - allowed))))
        for ri, r in enumerate(sig["rels"]):
            if r["func"] and r["cols"][-1] == ty and ri not in ctors:
                out.append(("api:no define_%s (non-constructor into enum %s)" % (r["name"], T),
                            re.search(r"fn define_%s\(" % r["name"], text) is None, ""))
    return out


def _one(args):
    seed, idx, scratch, nfacts = args
    rng = Rng(seed).fork("c15-%d" % idx)
    g = progs.ProgGen(rng, enums=True, control=True)
    prog = None
    for _ in range(60):
        p = g.gen()
        if p is not None and p["sig"].get("enums"):
            prog = p
            break
    if prog is None:
        return {"idx": idx, "status": "nogen"}
    text = progs.prog_eql(prog)
    wd = os.path.join(scratch, "p%d" % idx)
    built, status, log = gendrv.compile_program(prog, wd, text=text, extra=gendrv.enum_extra(prog))
    res = {"idx": idx, "prog": prog, "text": text, "status": status, "log": log[-1500:], "runs": [], "api": []}
    if built is None:
        return res
    res["api"] = api_obligations(open(os.path.join(wd, "out", "thy.eql.rs")).read(), prog)
    enums = prog["sig"]["enums"]
    for fi in range(nfacts):
        fs = progs.gen_facts(rng, prog["sig"], rules=prog["rules"])
        variant = rng.choice(["canon", "closes", "perm"])
        calls, hoe = progs.history_from_facts(rng, fs, variant)
        lines, st = built.run(calls, timeout=20)
        if st != "ok":
            res["runs"].append({"calls": calls, "status": st, "lines": lines})
            continue
        d = gendrv.parse_dump([l for l in lines if l.startswith("D ")][-1], prog)
        nt = prog["sig"]["ntypes"]
        q = []
        for ty in enums:
            ids = sorted({g_ // nt for (g_, _) in d["elems"][ty]})
            for i in ids:
                q.append(("q", "x case %d %d" % (ty, i)))
                q.append(("q", "x cases %d %d" % (ty, i)))
        # new_<enum>(case) round trip on caller elements (after the close everything is canonical)
        nhandles = len(d["raw_handles"])
        for ty, ctors in enums.items():
            c = rng.choice(ctors)
            cols = prog["sig"]["rels"][c]["cols"][:-1]
            cands = [[h for h, (t_, _, _) in enumerate(d["raw_handles"]) if t_ == col] for col in cols]
            if all(cands):
                hs = [rng.choice(x) for x in cands]
                q.append(("q", "x newenum %d %d %s" % (ty, c, " ".join(map(str, hs)))))
                q.append(("q", "NEWCASES %d %d %s" % (ty, c, ",".join(str(d["raw_handles"][h][2]) for h in hs))))
        # second phase: same history + the queries (ids are deterministic, C20)
        calls2 = calls[:-1]
        real_q = []
        for item in q:
            if item[1].startswith("NEWCASES"):
                real_q.append(item)
            else:
                calls2.append(item)
                real_q.append(item)
        # NEWCASES needs the id returned by the preceding newenum: issue `x cases` in a third run once known
        lines2, st2 = built.run([c for c in calls2], timeout=20)
        third = []
        if st2 == "ok":
            qlines = lines2[len(calls) - 1:]
            k = 0
            for item in real_q:
                if item[1].startswith("NEWCASES"):
                    continue
                if item[1].startswith("x newenum"):
                    new_id = int(qlines[k].split()[2])
                    ty = int(item[1].split()[2])
                    third.append(("q", "x cases %d %d" % (ty, new_id)))
                k += 1
            lines3, st3 = built.run(calls2 + third, timeout=20) if third else (lines2, st2)
        else:
            lines3, st3 = [], st2
        res["runs"].append({"calls": calls, "queries": [x[1] for x in real_q], "status": st2, "lines": lines2[len(calls) - 1:] if st2 == "ok" else lines2,
                            "third": [x[1] for x in third], "lines3": lines3[len(calls2):] if st3 == "ok" else [], "status3": st3,
                            "variant": variant})
    built.cleanup()
    return res


def run(ctx):
    from concurrent.futures import ProcessPoolExecutor
    ctx.trusted = engine.TRUSTED
    ctx.assumptions = ["the compile-time half (no rule may define a non-constructor term into an enum type) is property C10's "
                       "EnumCtorsNotSurjective class; here only the emitted API is inspected",
                       "enum elements are observed through the public iterators and the caller's handles"]
    ok_eng, _ = ctx.coq_build("Engine")
    if ok_eng:
        for f, req in ENGINE_PROPS:
            ctx.coq_props("Engine", f, required=req)
    if ctx.cargo_build("build-driver") is None or ctx.cargo_build("rt-driver") is None:
        return
    quick = ctx.tier == "quick"
    scratch = os.path.join(CACHE, "scratch", "c15-%d" % os.getpid())
    os.makedirs(scratch, exist_ok=True)
    try:
        gendrv.runtime_rlib()
        with ProcessPoolExecutor(max_workers=16) as ex:
            results = list(ex.map(_one, [(ctx.seed, i, scratch, 4 if quick else 10) for i in range(32 if quick else 300)]))
    finally:
        shutil.rmtree(scratch, ignore_errors=True)
    ctx.cov["programs"] = engine.status_counts(results)
    ctx.cov["rule"] = ("random programs with one enum type (1-3 constructors, possibly recursive), rules with match / branch / `!` on "
                       "constructors, facts incl. insert_<ctor> of existing elements (an element may be several constructor values) and "
                       "equalities; after the final close <enum>_case and <enum>_cases are called on every element of the enum type "
                       "(handles and all roots), then new_<enum>(case) and <enum>_cases on its result; non-trivial = an enum element was "
                       "derived by a rule or merged; distinct = (program, history)")
    stats = {"case_calls": 0, "newenum": 0, "elements_with_several_cases": 0}
    for res in results:
        if res["status"] in ("compiler_panic", "rustc_failed"):
            ctx.cov.setdefault("unusable_programs", []).append({"status": res["status"], "text": res["text"][:500], "log": res["log"][-300:]})
            continue
        if res["status"] != "ok":
            continue
        for (name, ok, detail) in res["api"]:
            ctx.obligation("p%d:%s" % (res["idx"], name), ok, detail)
            if not ok:
                ctx.violation({"kind": "program", "program": res["text"], "obligation": name, "detail": detail},
                              "the generated API can create an enum element without a constructor: %s" % name)
        for r in res["runs"]:
            rep = {"kind": "history", "program": res["text"], "calls": r["calls"], "queries": r.get("queries"), "lines": r.get("lines", [])[-6:]}
            if r["status"] == "timeout":
                continue
            if r["status"] != "ok":
                ctx.violation(rep, "the generated code crashed (%s) while destructuring enum elements" % r["status"][:100])
                continue
            k = 0
            derived = False
            for qy in r["queries"]:
                if qy.startswith("NEWCASES"):
                    continue
                line = r["lines"][k]
                k += 1
                if qy.startswith("x case "):
                    stats["case_calls"] += 1
                    if "PANIC" in line:
                        ctx.violation(dict(rep, query=qy), "<enum>_case panicked on an element of an enum type")
                    elif not line.endswith("eq=1"):
                        ctx.violation(dict(rep, query=qy, answer=line), "<enum>_case returned a constructor application that is not equal to the element")
                elif qy.startswith("x cases "):
                    n = len([c for c in line[len("x cases "):].split("|") if c])
                    if n == 0:
                        ctx.violation(dict(rep, query=qy), "an element of an enum type is not the value of any constructor application")
                    if n > 1:
                        stats["elements_with_several_cases"] += 1
            # new_enum round trip
            news = [qy for qy in r["queries"] if qy.startswith("NEWCASES")]
            for qy, line in zip(news, r.get("lines3", [])):
                stats["newenum"] += 1
                _, ty, c, args = (qy.split() + [""])[:4]
                want = "%s:%s" % (c, args)
                got = line[len("x cases "):].split("|")
                if want not in got:
                    ctx.violation(dict(rep, query=qy, answer=line), "new_<enum>(case) followed by <enum>_cases does not contain the case")
            nontriv = any(c[0] == "equate" for c in r["calls"]) or stats["case_calls"] > 0
            ctx.count("run", (res["idx"], str(r["calls"])) if nontriv else None, nontriv)
    for res in results:
        if res["status"] == "ok" and res["runs"]:
            ctx.sample({"program": res["text"], "queries": res["runs"][0].get("queries", [])[:6], "answers": res["runs"][0].get("lines", [])[:6]})
            break
    ctx.cov["runs"] = stats
    ctx.obligation("observation:<enum>_case total and correct on every element; new_<enum> round trip", not ctx.violations,
                   "%d case calls, %d round trips" % (stats["case_calls"], stats["newenum"]))
