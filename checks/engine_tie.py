"""Per-iteration correspondence between the weighted engine model (coq/Engine/ModelW.v, RunW.v) and the code that
eqlog emits NOW for close_until.

    def engine_tie(ctx, results_or_programs, pid) -> None

`results_or_programs`: the list returned by engine.run_programs (dicts with "prog", "text", "status", "sets" -> "runs" ->
"calls"/"hoe"), or a list of programs of gen/progs.py ({"sig", "rules"}; histories are then generated here).  `pid` is the
property on whose behalf the tie runs (C01, C02, C03, C06, C07): it decides how a fault of the IMPLEMENTATION is reported.

What is done, per program:
  1. the program is compiled twice by harness/build-driver: component mode (-> translate/fprog.py: the Gallina `fprogram`
     with every emitted sub-rule and its ages in call order, the <REL>_WEIGHT constants; the component sources must occur
     verbatim in the module-mode text) and module mode with the inspection impl of translate/desc.py compiled in;
  2. every selected API history is run on the generated driver; at EVERY point where close_until evaluates its condition the
     driver prints the whole private state (`X` lines): per relation the old and the new rows (primary full-order indices),
     the type sets, the root of every element, the weights;
  3. a python port of ModelW.v (search aid only, never trusted) runs the same history and, iteration by iteration, looks for
     the tie-break preference list under which the model state is isomorphic to the implementation's (the model cannot know
     which root the emitted loops meet first when two roots have equal weights; see the header of ModelW.v);
  4. Coq evaluates RunW.run_engineW (the model the theorems of Props_Tie.v are about) on the history with that advice, and
  5. Coq (Sem.Run.check_iso_code, sound: Sem_iso_b_sound) judges, for every observation point, that the implementation's
     state and the model's state are isomorphic by a map fixing the caller's handles, where a state is: the classes, per
     relation its rows AND its old rows, per type its old and its new type set, and per weight value the set of roots of that
     weight.  Exact (python, plain integers): iteration count and result of every close/close_until, number of elements per
     type at every point, weight 0 of every non-root, stored weights = recomputed weights (model), count <= iter_bound for
     `!`-free programs.
A disagreement is first blamed on the implementation: the verified oracles of coq/Sem judge its final dump (closedness;
isomorphism with the reference free model).  Only if they accept it is the correspondence reported as broken.
"""
import itertools
import os
import shutil
import sys
from concurrent.futures import ProcessPoolExecutor

VERIF = os.path.dirname(os.path.dirname(os.path.abspath(__file__)))
for _p in (VERIF, os.path.join(VERIF, "lib"), os.path.join(VERIF, "gen"), os.path.join(VERIF, "checks")):
    if _p not in sys.path:
        sys.path.insert(0, _p)

import engine  # noqa: E402
import gendrv  # noqa: E402
import progs  # noqa: E402
from common import CACHE, Rng, coq_list, sh  # noqa: E402
from translate import desc as tdesc  # noqa: E402
from translate import fprog as tfprog  # noqa: E402

TIE_REQ = ["Tie_wf_rules_b_sound", "Tie_famok_check_sound", "Tie_famsound_check_sound", "Tie_equate_partition", "Tie_exec_iterW_astep", "Tie_step_same_quotient", "Tie_close_closed", "Tie_cu_true",
           "Tie_cu_false", "Tie_cu_resume", "Tie_iter_boundN"]
FUEL = 60
SEARCH_CAP = 4096

# which property a failing oracle speaks about
ORACLE_PROPS = {"closed": ("C01", "C03", "C06", "C07"), "iso": ("C02", "C03", "C07"), "crash": ("C01", "C02", "C03", "C06", "C07")}


# ====================================================================================== python port of ModelW.v
# Search aid only.  Mirrors Model.v / ModelW.v definition by definition, INCLUDING list orders, so that element ids
# coincide with those of the Coq model (the advice names elements by id).  The Coq run is what is judged.

class Ambiguous(Exception):
    pass


class Port:
    def __init__(self, fp):
        self.rules = fp["rules"]
        self.W = dict(fp["weights"])
        self.restype = dict(fp["restype"])
        self.rep_ = {}
        self.old = []
        self.new = []
        self.pending = []
        self.next_id = 0
        self.wt = {}
        self.ty = {}        # instrumentation: type of every element (not part of the model)

    def copy(self):
        p = Port.__new__(Port)
        p.rules, p.W, p.restype = self.rules, self.W, self.restype
        p.rep_ = dict(self.rep_)
        p.old, p.new, p.pending = list(self.old), list(self.new), list(self.pending)
        p.next_id = self.next_id
        p.wt, p.ty = dict(self.wt), dict(self.ty)
        return p

    def rep(self, x):
        return self.rep_.get(x, x)

    def relw(self, r):
        return self.W.get(r[1], 0) if r[0] == "R" else 0

    def canon_fact(self, x):
        return (x[0], tuple(self.rep(e) for e in x[1]))

    def is_canon(self, x):
        return all(self.rep(e) == e for e in x[1])

    # ---- API
    def new_el(self, ty):
        e = self.next_id
        self.new.append((("T", ty), (e,)))
        self.next_id = e + 1
        self.rep_[e] = e
        self.wt[e] = 0
        self.ty[e] = ty
        return e

    def insert(self, x):
        y = self.canon_fact(x)
        if y in self.new or y in self.old:
            return
        self.new.append(y)
        w = self.relw(x[0])
        for e in y[1]:
            self.wt[e] = self.wt.get(e, 0) + w

    def equate(self, a, b, pref=()):
        """-> None (no union), or (survivor, absorbed, tie?)"""
        ra, rb = self.rep(a), self.rep(b)
        if ra == rb:
            return None
        wa, wb = self.wt.get(ra, 0), self.wt.get(rb, 0)
        tb = (rb in pref) and (ra not in pref)
        second = wa < wb or (wa == wb and tb)
        root, child = (rb, ra) if second else (ra, rb)
        for x in list(self.rep_):
            if self.rep_[x] == child:
                self.rep_[x] = root
        return (root, child, wa == wb)

    def lookup_fun(self, f, a):
        for (r, t) in self.new + self.old:
            if r == ("R", f) and len(t) == len(a) + 1 and t[:-1] == a:
                return t[-1]
        return None

    def lookup_first_table(self, f, a):
        """The values of f(a) in the table the generated f(..) answers from: the new rows if any matches, else the old rows.
        More than one value: which one the implementation returns depends on raw ids (index order)."""
        for tab in (self.new, self.old):
            vs = [t[-1] for (r, t) in tab if r == ("R", f) and len(t) == len(a) + 1 and t[:-1] == a]
            if vs:
                return vs
        return []

    def define(self, f, args, ty=None):
        a = tuple(self.rep(e) for e in args)
        v = self.lookup_fun(f, a)
        if v is not None:
            return v
        e = self.next_id
        self.new.append((("T", self.restype.get(f, 0)), (e,)))
        self.next_id = e + 1
        self.rep_[e] = e
        self.wt[e] = 0
        self.ty[e] = self.restype.get(f, 0)
        self.insert((("R", f), a + (e,)))
        return e

    # ---- matching
    def tbl(self, age):
        return self.new if age == "new" else self.old if age == "old" else self.new + self.old

    def matches(self, prem, k, env, out):
        if k == len(prem):
            out.append(env)
            return
        kind, ident, args, age = prem[k]
        rel = ("T" if kind == "ty" else "R", ident)
        for (r, t) in self.tbl(age):
            if r != rel or len(t) != len(args):
                continue
            e = env
            ok = True
            for x, v in zip(args, t):
                if x in e:
                    if e[x] != v:
                        ok = False
                        break
                else:
                    e = dict(e)
                    e[x] = v
            if ok:
                self.matches(prem, k + 1, e, out)

    def collect(self):
        D = []
        for ru in self.rules:
            envs = []
            self.matches(ru["prem"], 0, {}, envs)
            for e in envs:
                for (kind, ident, args) in ru["conc"]:
                    vals = tuple(e.get(x, 0) for x in args)
                    D.append((kind, ident, vals))
        return D

    # ---- phases
    def canonicalize(self):
        bad = [x for x in self.old + self.new if not self.is_canon(x)]
        self.old = [x for x in self.old if self.is_canon(x)]
        self.new = [x for x in self.new if self.is_canon(x)]
        for x in bad:
            w = self.relw(x[0])
            for e in x[1]:
                self.wt[e] = max(0, self.wt.get(e, 0) - w)
        for x in bad:
            self.insert(x)

    def exec_iter(self, pref=()):
        """-> info: {"ties": n, "merged": [(root, child, tie)], "pre": {root: weight} before the unions}"""
        D = self.collect()
        self.old = self.old + self.new
        self.new = []
        pre = {x: self.wt.get(x, 0) for x in self.rep_ if self.rep_[x] == x}
        merged = []
        for (kind, _t, vals) in D:
            if kind == "eq":
                r = self.equate(vals[0], vals[1], pref)
                if r is not None:
                    merged.append(r)
        self.canonicalize()
        for (kind, ident, vals) in D:
            if kind == "rel":
                self.insert((("R", ident), vals))
        self.pending = self.pending + [(ident, vals) for (kind, ident, vals) in D if kind == "def"]
        return {"ties": sum(1 for m in merged if m[2]), "merged": merged, "pre": pre}

    def apply_defs(self):
        pend, self.pending = self.pending, []
        for (f, args) in pend:
            self.define(f, args)

    def is_dirty(self):
        return bool(self.new)

    def eval_cond(self, c, hd):
        k = c[0]
        if k == "P":
            t = tuple(self.rep(hd[h]) for h in c[2])
            if c[1] in self.restype:
                vs = {self.rep(v) == t[-1] for v in self.lookup_first_table(c[1], t[:-1])}
                if len(vs) > 1:
                    raise Ambiguous("condition on a function application with several values")
                return bool(vs) and vs.pop()
            y = (("R", c[1]), t)
            return y in self.new or y in self.old
        if k == "F":
            return self.lookup_fun(c[1], tuple(self.rep(hd[h]) for h in c[2])) is not None
        if k == "E":
            return self.rep(hd[c[2]]) == self.rep(hd[c[3]])
        if k == "A":
            return self.eval_cond(c[1], hd) and self.eval_cond(c[2], hd)
        if k == "O":
            return self.eval_cond(c[1], hd) or self.eval_cond(c[2], hd)
        raise ValueError(c)

    def weights_ok(self):
        occ = {}
        for (r, t) in self.old + self.new:
            for e in t:
                occ[e] = occ.get(e, 0) + self.relw(r)
        return all(self.wt.get(e, 0) == occ.get(e, 0) for e in range(self.next_id))


# ====================================================================================== normalised structures

def norm_of_port(p, handles, nrel, nt):
    """Observation of a model state: everything over ids of the model."""
    roots = {t: set() for t in range(nt)}
    count = {t: 0 for t in range(nt)}
    for e in range(p.next_id):
        count[p.ty[e]] += 1
        if p.rep(e) == e:
            roots[p.ty[e]].add(e)
    rows = {}
    for (lst, tag) in ((p.old, "o"), (p.new, "n")):
        for (r, t) in lst:
            if r[0] == "R":
                rows.setdefault(("m", r[1]), set()).add(t)
                if tag == "o":
                    rows.setdefault(("o", r[1]), set()).add(t)
            else:
                rows.setdefault(("t" + tag, r[1]), set()).add(t)
    return {"roots": roots, "count": count, "rows": rows, "handles": [p.rep(h) for h in handles],
            "weights": {e: p.wt.get(e, 0) for e in range(p.next_id)}, "rootof": {e: p.rep(e) for e in range(p.next_id)},
            "typeof": dict(p.ty)}


class ImplView:
    """Maps the descriptor of translate/desc.py (compiler's order of types and relations) to the program's numbering."""

    def __init__(self, prog, d):
        sig = prog["sig"]
        self.nt = sig["ntypes"]
        self.nrel = len(sig["rels"])
        tmap = {progs.tname(i): i for i in range(self.nt)}
        self.dtype = []                      # descriptor type index -> program type
        for t in d["types"]:
            if t["name"] not in tmap:
                raise ValueError("descriptor type %s is not a type of the program" % t["name"])
            self.dtype.append(tmap[t["name"]])
        rmap = {tfprog.norm(r["name"]): i for i, r in enumerate(sig["rels"])}
        self.drel = []
        for r in d["rels"]:
            k = tfprog.norm(r["name"])
            if k not in rmap:
                raise ValueError("descriptor relation %s is not a relation of the program" % r["name"])
            pi = rmap[k]
            if [self.dtype[c] for c in r["cols"]] != sig["rels"][pi]["cols"]:
                raise ValueError("descriptor relation %s has other column types than the program" % r["name"])
            self.drel.append(pi)
        if sorted(self.drel) != list(range(self.nrel)) or sorted(self.dtype) != list(range(self.nt)):
            raise ValueError("descriptor and program disagree on the relations / types")
        self.d = d
        self.fidx = {f["name"]: f for f in d["fields"]}

    def gid(self, x, ty):
        return x * self.nt + ty

    def rows_of(self, insp, dri, which):
        r = self.d["rels"][dri]
        k, _args = r["prim_new"] if which == "new" else r["prim_old"]
        f = self.fidx[r["indices"][k]]
        if f["diag"] is not None or f["age"] != which or sorted(f["order"]) != list(range(r["arity"])):
            raise ValueError("primary %s index of %s is not a full-order index" % (which, r["name"]))
        cols = tdesc.stored_cols(f["order"], None, r["arity"])
        out = set()
        for t in insp["I"][f["name"]]:
            row = [None] * r["arity"]
            for pos, c in enumerate(cols):
                row[c] = self.gid(t[pos], self.dtype[r["cols"][c]])
            out.add(tuple(row))
        return out

    def norm(self, insp, handles):
        """handles: [(type, raw id)] -> observation of an implementation state over global ids."""
        roots = {t: set() for t in range(self.nt)}
        count = {}
        rootof, weights, typeof = {}, {}, {}
        for di, t in enumerate(self.d["types"]):
            ty = self.dtype[di]
            rs = insp["R"][t["snake"]]
            ws = insp["W"][t["snake"]]
            if len(ws) != len(rs):
                raise ValueError("type %s: %d weights for %d elements" % (t["name"], len(ws), len(rs)))
            count[ty] = len(rs)
            for i, rt in enumerate(rs):
                g = self.gid(i, ty)
                rootof[g] = self.gid(rt, ty)
                weights[g] = ws[i]
                typeof[g] = ty
                if rt == i:
                    roots[ty].add(g)
            if insp["U"][t["snake"]]:
                raise ValueError("type %s: uprooted list not empty at an observation point" % t["name"])
        rows = {}
        for dri in range(len(self.d["rels"])):
            pi = self.drel[dri]
            o, n = self.rows_of(insp, dri, "old"), self.rows_of(insp, dri, "new")
            if o & n:
                raise ValueError("relation %d: a row is both old and new" % pi)
            if o | n:
                rows[("m", pi)] = o | n
            if o:
                rows[("o", pi)] = o
        for di, t in enumerate(self.d["types"]):
            ty = self.dtype[di]
            for which, tag in (("old", "to"), ("new", "tn")):
                s = {(self.gid(x[0], ty),) for x in insp["I"][t[which]]}
                if s:
                    rows[(tag, ty)] = s
        return {"roots": roots, "count": count, "rows": rows, "handles": [rootof[self.gid(e, ty)] for (ty, e) in handles],
                "weights": weights, "rootof": rootof, "typeof": typeof, "hel": [self.gid(e, ty) for (ty, e) in handles]}


def iso_search(A, B, funcs, split=True):
    """Search aid: a handle-fixing isomorphism A -> B (dict root -> root), or None.  Propagation through function rows whose
    image is forced, then backtracking over the remaining roots (states between iterations need not be functional, so a
    function row may have several candidate images).  split=False ignores the old/new split, type-set ages and weights."""
    if len(A["handles"]) != len(B["handles"]):
        return None
    for ty in A["roots"]:
        if len(A["roots"][ty]) != len(B["roots"].get(ty, ())):
            return None
    keys = sorted(set(A["rows"]) | set(B["rows"]), key=repr)
    if not split:
        keys = [k for k in keys if k[0] == "m"]
    for k in keys:
        if len(A["rows"].get(k, ())) != len(B["rows"].get(k, ())):
            return None
    tyA = {x: ty for ty, s in A["roots"].items() for x in s}
    tyB = {x: ty for ty, s in B["roots"].items() for x in s}
    bidx = {}
    for f in funcs:
        d = {}
        for t in B["rows"].get(("m", f), ()):
            d.setdefault(t[:-1], []).append(t[-1])
        bidx[f] = d

    def final_check(m):
        for k in keys:
            ra, rb = A["rows"].get(k, set()), B["rows"].get(k, set())
            try:
                if {tuple(m[x] for x in t) for t in ra} != rb:
                    return False
            except KeyError:
                return False
        if not split:
            for ty in A["roots"]:
                ta = set().union(A["rows"].get(("to", ty), set()), A["rows"].get(("tn", ty), set()))
                tb = set().union(B["rows"].get(("to", ty), set()), B["rows"].get(("tn", ty), set()))
                if {(m[x[0]],) for x in ta} != tb:
                    return False
            return True
        return all(A["weights"][x] == B["weights"][m[x]] for x in m)

    def add(m, inv, x, y):
        if x in m:
            return m[x] == y
        if y in inv or tyA.get(x) != tyB.get(y) or x not in tyA:
            return False
        if split and A["weights"][x] != B["weights"][y]:
            return False
        m[x] = y
        inv[y] = x
        return True

    def propagate(m, inv):
        changed = True
        while changed:
            changed = False
            for f in funcs:
                for t in A["rows"].get(("m", f), ()):
                    if t[-1] in m:
                        continue
                    try:
                        a = tuple(m[x] for x in t[:-1])
                    except KeyError:
                        continue
                    cands = [v for v in bidx[f].get(a, ()) if v not in inv]
                    if not cands:
                        return False
                    if len(cands) == 1:
                        if not add(m, inv, t[-1], cands[0]):
                            return False
                        changed = True
        return True

    budget = [20000]

    def solve(m, inv):
        if not propagate(m, inv):
            return None
        todo = [x for x in tyA if x not in m]
        if not todo:
            return m if final_check(m) else None
        best, bc = None, None
        for x in todo:
            c = [y for y in B["roots"][tyA[x]] if y not in inv and (not split or A["weights"][x] == B["weights"][y])]
            if bc is None or len(c) < len(bc):
                best, bc = x, c
        for y in sorted(bc):
            budget[0] -= 1
            if budget[0] < 0:
                return None
            m2, inv2 = dict(m), dict(inv)
            if add(m2, inv2, best, y):
                r = solve(m2, inv2)
                if r is not None:
                    return r
        return None
    m, inv = {}, {}
    for x, y in zip(A["handles"], B["handles"]):
        if not add(m, inv, x, y):
            return None
    return solve(m, inv)


def structure_term(S, nrel, nt, model_side):
    """Gallina `Sem.Syntax.structure` of an observation (see the module docstring for the encoding of the relations)."""
    elems = {t: [] for t in range(nt)}
    keep = set(S["handles"]) | set(S.get("hel", ()))
    for t in range(nt):
        for x in sorted(S["roots"][t]):
            elems[t].append((x, x))
    for x in sorted(keep):
        rt = S["rootof"][x]
        if x != rt:
            elems[S["typeof"][x]].append((x, rt))
    rows = {}
    for (k, i), s in S["rows"].items():
        code = {"m": i, "o": nrel + i, "to": 2 * nrel + i, "tn": 2 * nrel + nt + i}[k]
        rows[code] = sorted(s)
    for t in range(nt):
        for x in S["roots"][t]:
            rows.setdefault(2 * nrel + 2 * nt + S["weights"][x], []).append((x,))
    for k in rows:
        rows[k] = sorted(rows[k])
    handles = S.get("hel") if S.get("hel") is not None else S["handles_el"]
    return progs.structure_coq({"elems": elems, "rows": rows, "handles": handles})


# ====================================================================================== implementation traces

def split_trace(calls, lines):
    """-> (handles [(ty, raw id)] is filled by the caller) list per call: {"kind", "X": [lines], "answer": line}"""
    out = []
    pos = 0
    for c in calls:
        ent = {"call": c, "X": [], "answer": None}
        if c[0] in ("close", "close_until"):
            while pos < len(lines) and lines[pos].startswith("X "):
                ent["X"].append(lines[pos])
                pos += 1
        if pos >= len(lines):
            raise ValueError("missing output for call %r" % (c,))
        ent["answer"] = lines[pos]
        pos += 1
        out.append(ent)
    if pos != len(lines):
        raise ValueError("%d unread output lines" % (len(lines) - pos))
    return out


def strip_history(calls):
    """API calls only (dumps and queries are observations of the harness, the model does not see them)."""
    return [c for c in calls if c[0] in ("new", "insert", "define", "equate", "close", "close_until")]


def ecall_coq(c):
    k = c[0]
    if k == "new":
        return "ENew %d" % c[1]
    if k == "insert":
        return "EInsert %d %s" % (c[1], coq_list(c[2]))
    if k == "define":
        return "EDefine %d %s" % (c[1], coq_list(c[2]))
    if k == "equate":
        return "EEquate %d %d" % (c[2], c[3])
    if k == "close":
        return "EClose"
    if k == "close_until":
        return "ECloseUntil (%s)" % econd_coq(c[1])
    raise ValueError(c)


def econd_coq(c):
    if c[0] == "P":
        return "ECPred %d %s" % (c[1], coq_list(c[2]))
    if c[0] == "F":
        return "ECDefined %d %s" % (c[1], coq_list(c[2]))
    if c[0] == "E":
        return "ECEqual %d %d" % (c[2], c[3])
    return "%s (%s) (%s)" % ("ECAnd" if c[0] == "A" else "ECOr", econd_coq(c[1]), econd_coq(c[2]))


# ====================================================================================== the search, per history

def candidates(info, port_after):
    """Final classes with more than one pre-union root of maximal weight -> list of candidate lists."""
    groups = {}
    for r0, w in info["pre"].items():
        groups.setdefault(port_after.rep(r0), []).append((w, r0))
    out = []
    for _root, lst in sorted(groups.items()):
        if len(lst) < 2:
            continue
        mx = max(w for w, _ in lst)
        c = sorted(r0 for w, r0 in lst if w == mx)
        if len(c) >= 2:
            out.append(c)
    return out


def run_history(fp, view, prog, calls, trace):
    """Runs the port against the implementation's trace.  -> dict(status, advice, closes=[...], first_diff)."""
    sig = prog["sig"]
    nrel, nt = len(sig["rels"]), sig["ntypes"]
    funcs = [i for i, r in enumerate(sig["rels"]) if r["func"]]
    p = Port(fp)
    hd = []            # model element of each handle
    himpl = []         # (type, raw id) of each handle in the implementation
    advice = []
    closes = []
    res = {"status": "ok", "advice": advice, "closes": closes, "diff": None, "ambiguous_define": False, "searches": 0, "tried": 0}
    for ent in trace:
        c = ent["call"]
        k = c[0]
        if k == "new":
            hd.append(p.new_el(c[1]))
            himpl.append((c[1], int(ent["answer"].split()[1])))
        elif k == "insert":
            p.insert((("R", c[1]), tuple(hd[h] for h in c[2])))
        elif k == "define":
            args = tuple(hd[h] for h in c[2])
            if len(set(p.lookup_first_table(c[1], tuple(p.rep(e) for e in args)))) > 1:
                res["status"] = "ambiguous"         # several rows f(args) = v: which one define_ returns depends on ids
                return res
            hd.append(p.define(c[1], args))
            himpl.append((sig["rels"][c[1]]["cols"][-1], int(ent["answer"].split()[1])))
        elif k == "equate":
            p.equate(hd[c[2]], hd[c[3]])
        elif k in ("close", "close_until"):
            cond = c[1] if k == "close_until" else None
            obs = [view.norm(tdesc.parse_inspect(x, view.d), himpl) for x in ent["X"]]
            if k == "close":
                impl_ret = False
                impl_evals = int(ent["answer"].split()[1])
                if impl_evals != len(obs):
                    raise ValueError("close reports %d condition evaluations, %d states were printed" % (impl_evals, len(obs)))
            else:
                impl_ret = ent["answer"].split()[1] == "1"
            prefs = []
            cl = {"impl": obs, "impl_ret": impl_ret, "model": [], "ties": [], "merges": [], "prefs": prefs, "model_ret": None, "exact": []}
            closes.append(cl)
            advice.append(prefs)

            def observe(k_eval, ties, merges=0, check=True):
                M = norm_of_port(p, hd, nrel, nt)
                M["handles_el"] = list(hd)
                cl["model"].append(M)
                cl["ties"].append(ties)
                cl["merges"].append(merges)
                if k_eval >= len(obs):
                    return False
                return (not check) or iso_search(obs[k_eval], M, funcs) is not None

            def fail(k_eval, why):
                res["status"] = "diff"
                res["diff"] = {"close": len(closes) - 1, "eval": k_eval, "why": why}
                return res
            # --- exec_close_untilW
            p.canonicalize()
            if not observe(0, 0):
                return fail(0, "state after the initial canonicalize")
            if cond is not None and p.eval_cond(cond, hd):
                cl["model_ret"] = True
            else:
                p.pending = []
                fuel = FUEL
                k_eval = 1
                while True:
                    if fuel == 0:
                        res["status"] = "fuel"
                        return res
                    fuel -= 1
                    base = p.copy()
                    info = p.exec_iter(())
                    pref = []
                    ok = k_eval < len(obs) and iso_search(obs[k_eval], norm_of_port(p, hd, nrel, nt), funcs) is not None
                    if not ok and info["ties"] > 0 and k_eval < len(obs):
                        cands = candidates(info, p)
                        res["searches"] += 1
                        total = 1
                        for cnd in cands:
                            total *= len(cnd)
                        if total <= SEARCH_CAP:
                            for choice in itertools.product(*cands):
                                res["tried"] += 1
                                q = base.copy()
                                q.exec_iter(set(choice))
                                if iso_search(obs[k_eval], norm_of_port(q, hd, nrel, nt), funcs) is not None:
                                    p.__dict__.update(q.__dict__)
                                    pref = sorted(choice)
                                    ok = True
                                    break
                    prefs.append(pref)
                    observe(k_eval, info["ties"], len(info["merged"]), check=False)
                    if not ok:
                        why = "no state of the implementation left" if k_eval >= len(obs) else \
                            "iteration %d%s" % (k_eval, " (no tie-break resolution reproduces the implementation)" if info["ties"] else "")
                        return fail(k_eval, why)
                    if cond is not None and p.eval_cond(cond, hd):
                        p.apply_defs()
                        cl["model_ret"] = True
                        break
                    if not p.is_dirty():
                        p.apply_defs()
                        if not p.is_dirty():
                            cl["model_ret"] = False
                            break
                    k_eval += 1
            if len(cl["model"]) != len(obs):
                return fail(len(cl["model"]), "the model stops after %d condition evaluations, the implementation after %d" % (len(cl["model"]), len(obs)))
            if cl["model_ret"] != impl_ret:
                return fail(len(obs) - 1, "close_until returns %s in the model and %s in the implementation" % (cl["model_ret"], impl_ret))
    res["handles"] = list(hd)
    res["himpl"] = himpl
    res["final_next_id"] = p.next_id
    res["weights_ok"] = p.weights_ok()
    return res


# ====================================================================================== worker (one program)

def port_conditions(fp, prog, canon_calls, rng):
    """close_until conditions for a generated history: facts over the caller's elements that hold in the model closed by
    the python port but were not asserted (so they become true during closing, some only after definitions)."""
    p = Port(fp)
    hd = []
    asserted = set()
    try:
        for c in canon_calls:
            if c[0] == "new":
                hd.append(p.new_el(c[1]))
            elif c[0] == "insert":
                p.insert((("R", c[1]), tuple(hd[h] for h in c[2])))
                asserted.add((c[1], tuple(c[2])))
            elif c[0] == "define":
                hd.append(p.define(c[1], tuple(hd[h] for h in c[2])))
            elif c[0] == "equate":
                p.equate(hd[c[2]], hd[c[3]])
            elif c[0] == "close":
                p.canonicalize()
                p.pending = []
                for _ in range(FUEL):
                    p.exec_iter(())
                    if not p.is_dirty():
                        p.apply_defs()
                        if not p.is_dirty():
                            break
                else:
                    return []
    except RecursionError:
        return []
    hroots = {}
    for hi, e in enumerate(hd):
        hroots.setdefault(p.rep(e), []).append(hi)
    cands = []
    for (r, t) in p.old + p.new:
        if r[0] == "R" and all(x in hroots for x in t):
            hs = [rng.choice(hroots[x]) for x in t]
            if (r[1], tuple(hs)) not in asserted:
                cands.append((r[1], hs))
    out = []
    for (r, hs) in rng.shuffle(cands)[:3]:
        if prog["sig"]["rels"][r]["func"] and rng.chance(1, 2):
            out.append(("F", r, hs[:-1]))
        else:
            out.append(("P", r, hs))
    return out


def def_programs(seed, n):
    """Programs with a `!` / `:=` conclusion (pending definitions are what makes close_until's early return delicate)."""
    out = []
    k = 0
    while len(out) < n and k < 40 * n:
        rng = Rng(seed).fork("tiedef%d" % k)
        k += 1
        prog = progs.ProgGen(rng, max_rules=4).gen()
        if prog is None:
            continue
        if any(st[0] == "then" and st[1][0] in ("def", "let") for ru in prog["rules"] for st in ru):
            out.append({"sig": prog["sig"], "rules": prog["rules"], "_bias": "defs", "idx": 11000 + len(out)})
    return out


def _histories_of(item, rng, nhist, fp=None):
    """-> (prog, text, [(calls, hoe, canon_calls)])"""
    if "prog" in item:
        prog, text = item["prog"], item.get("text") or progs.prog_eql(item["prog"])
        hs = []
        for fs in item.get("sets", []):
            for r in fs["runs"]:
                if r.get("status", "ok") == "ok":
                    hs.append((r["calls"], r.get("hoe"), fs.get("canon")))
        return prog, text, hs
    prog = {"sig": item["sig"], "rules": item["rules"]}
    hs = []
    for _ in range(max(1, nhist // 3)):
        fs = progs.gen_facts(rng, prog["sig"], rules=prog["rules"])
        if item.get("_bias") == "merge":
            import c04
            fs = c04.extra_facts(rng, prog["sig"], fs)
        canon, _h = progs.history_from_facts(rng, fs, "canon")
        for v in ("canon", "perm", "closes"):
            calls, hoe = progs.history_from_facts(rng, fs, v)
            if v == "closes" and item.get("_bias") == "merge":
                # more unions after the model has been closed once: weights of established classes meet
                types = [c[1] if c[0] == "new" else prog["sig"]["rels"][c[1]]["cols"][-1] for c in calls if c[0] in ("new", "define")]
                tail_calls = []
                for _k in range(1 + rng.below(3)):
                    a, b = rng.below(len(types)), rng.below(len(types))
                    if a != b and types[a] == types[b]:
                        tail_calls.append(("equate", types[a], a, b))
                calls = [c for c in calls if c[0] != "dump"] + tail_calls + [("close",), ("dump",)]
            hs.append((calls, hoe, canon))
        if fp is not None:
            pre = [c for c in canon if c[0] not in ("close", "dump")]
            for cnd in port_conditions(fp, prog, canon, rng):
                hs.append((pre + [("close_until", cnd), ("dump",), ("close",), ("dump",)], _h, canon))
    return prog, progs.prog_eql(prog), hs


def merge_programs(seed, n):
    """Programs biased towards unions and diagonal atoms (the generator of C04): rules with repeated variables and
    equality conclusions, predicates with several columns of one type."""
    try:
        import c04
    except Exception:
        return []
    out = []
    for i in range(n):
        rng = Rng(seed).fork("tiemerge%d" % i)
        g = c04.DiagProgGen(rng, max_rules=4)
        prog = None
        for _ in range(20):
            prog = g.gen()
            if prog is not None:
                break
        if prog is not None:
            out.append({"sig": prog["sig"], "rules": prog["rules"], "_bias": "merge", "idx": 10000 + i})
    return out


def _select(hs, nhist, rng):
    """Prefer histories with close_until and with intermediate closes; deterministic."""
    def score(h):
        calls = h[0]
        return (-sum(1 for c in calls if c[0] == "close_until"), -sum(1 for c in calls if c[0] == "close"))
    seen, uniq = set(), []
    for h in hs:
        key = repr(strip_history(h[0]))
        if key not in seen:
            seen.add(key)
            uniq.append(h)
    uniq.sort(key=score)
    return uniq[:nhist]


def tie_worker(args):
    (seed, idx, scratch, item, nhist, timeout) = args
    rng = Rng(seed).fork("tie%d" % idx)
    prog, text, hs = _histories_of(item, rng, nhist)
    out = {"idx": idx, "prog": prog, "text": text, "status": "ok", "hist": [], "log": ""}
    wd = os.path.join(scratch, "t%d" % idx)
    try:
        if prog["sig"].get("enums"):
            out["status"] = "enum_unsupported"      # translate/desc.py (inspection impl) does not cover enum declarations
            return out
        lenient_note = []
        if os.environ.get("VERIF_TIE_LENIENT"):
            # experiments with seeded changes only: translate/desc.py refuses a close_until that differs from its template
            # (reported as a broken translation).  To see what the BEHAVIOURAL comparison says about the known variant
            # "no apply_func_defs before the early return", parse a copy of the text in which that call is put back.
            import re as _re
            orig = tdesc.parse_module

            def lenient(mtext):
                try:
                    return orig(mtext)
                except tdesc.DescError as ex:
                    if "close_until does not match" not in str(ex):
                        raise
                    lenient_note.append(str(ex)[:200])
                    return orig(_re.sub(r"(delta\.apply_tuples\(self\);\s*self\.recompute_model_indices\(\);\s*if condition\(self\) \{\s*)(return true;)",
                                        r"\1delta.apply_func_defs(self);\n\2", mtext))
            tdesc.parse_module = lenient
        built, status, log = gendrv.compile_program(prog, wd, text=text, inspect=True)
        if lenient_note:
            out["template_deviation"] = lenient_note[0]
        if built is None:
            out["status"], out["log"] = status, log[-1500:]
            return out
        # component mode: the rule modules as separate sources
        cdir = os.path.join(wd, "c")
        for sub in ("out", "comp"):
            os.makedirs(os.path.join(cdir, sub))
        rc, clog = sh([os.path.join(CACHE, "target", "release", "build-driver"), "component", os.path.join(wd, "in"),
                       os.path.join(cdir, "out"), os.path.join(cdir, "comp"),
                       os.path.join(VERIF, "harness", "build-driver", "fake_rustc.sh"), "x"], timeout=120)
        if rc != 0:
            out["status"], out["log"] = "component_failed", clog[-1500:]
            return out
        try:
            ctext = open(os.path.join(cdir, "out", "thy.eql.rs")).read()
            fp = tfprog.translate(os.path.join(cdir, "comp"), ctext, prog["sig"])
            fp["problems"] += tfprog.check_embedded(os.path.join(cdir, "comp"), built.module_text)
            if tfprog.weights_of(built.module_text, tfprog.name_maps(prog["sig"])[0]) != fp["weights"]:
                fp["problems"].append("module mode and component mode print different weight constants")
            view = ImplView(prog, built.desc)
        except (tfprog.FprogError, ValueError) as ex:
            out["status"], out["log"] = "translate_failed", str(ex)[:1500]
            return out
        out["fp"] = fp
        if "prog" not in item:
            _p, _t, hs = _histories_of(item, Rng(seed).fork("tie%d" % idx), nhist, fp)
        for (calls, hoe, canon) in _select(hs, nhist, rng):
            api = strip_history(calls)
            h = {"calls": api, "orig": calls, "hoe": hoe, "canon": canon}
            lines, st = built.run(calls, timeout=timeout)
            h["run_status"] = st
            if st != "ok":
                h["status"] = "timeout" if st == "timeout" else "crash"
                h["lines"] = lines[-3:]
                out["hist"].append(h)
                continue
            h["dumps"] = [l for l in lines if l.startswith("D ")]
            try:
                trace = split_trace([c for c in calls], lines)
                trace = [e for e in trace if e["call"][0] in ("new", "insert", "define", "equate", "close", "close_until")]
                try:
                    r = run_history(fp, view, prog, api, trace)
                except Ambiguous:
                    r = {"status": "ambiguous"}
            except ValueError as ex:
                h["status"] = "parse"
                h["log"] = str(ex)[:500]
                out["hist"].append(h)
                continue
            h.update(r)
            out["hist"].append(h)
        built.cleanup()
    finally:
        shutil.rmtree(wd, ignore_errors=True)
    return out


# ====================================================================================== Coq side

HEADER1 = ("Require Import List NArith. Import ListNotations.\n"
           "Require Import Engine.Model Engine.FactsBasic Engine.FactsInv Engine.FactsFam Engine.FactsFamCheck Engine.Run Engine.ModelW Engine.RunW.\n"
           "Open Scope N_scope.\n")


def norm_of_coq(snap, handles, nt):
    """wsnap printed by Coq -> observation over model ids (same shape as norm_of_port). Types are read off the type
    sets (roots) and inherited along the class (non-roots)."""
    (old, new, (classes, weights), (ties, npend)) = snap
    rootof = {e: r for (e, r) in classes}
    typeof = {}
    rows = {}
    for lst, tag in ((old, "o"), (new, "n")):
        for (is_ty, ident, row) in lst:
            row = tuple(row)
            if is_ty == "true":
                rows.setdefault(("t" + tag, ident), set()).add(row)
                typeof[row[0]] = ident
            else:
                rows.setdefault(("m", ident), set()).add(row)
                if tag == "o":
                    rows.setdefault(("o", ident), set()).add(row)
    for e, r in rootof.items():
        if e not in typeof:
            if r not in typeof:
                raise ValueError("model element %d (root %d) is in no type set" % (e, r))
            typeof[e] = typeof[r]
    roots = {t: set() for t in range(nt)}
    count = {t: 0 for t in range(nt)}
    for e, r in rootof.items():
        count[typeof[e]] += 1
        if e == r:
            roots[typeof[e]].add(e)
    return {"roots": roots, "count": count, "rows": rows, "handles": [rootof[h] for h in handles],
            "weights": dict((e, w) for (e, w) in weights), "rootof": rootof, "typeof": typeof, "hel": list(handles),
            "ties": ties, "npend": npend}


def same_obs(a, b):
    return all(a[k] == b[k] for k in ("roots", "count", "rows", "handles", "weights", "rootof"))


def _replay(res, h, extra=None):
    r = {"kind": "history", "program": res["text"], "calls": h["orig"]}
    if extra:
        r.update(extra)
    return r


def program_hypotheses(ctx, res, v, pid, st):
    """Obligations engine-hyp:<prog>:wf_rules / FamOK / FamSound from the values computed in Coq (wf_rule_b, famok_check,
    famsound_check of FactsFamCheck.v; sound by Tie_wf_rules_b_sound, Tie_famok_check_sound, Tie_famsound_check_sound)."""
    from translate import flat as tflat
    (wf, fok, fsnd, uncovered, foreign) = v
    fp = res["fp"]
    name = "p%d" % res["idx"]
    st["hyp_programs"] = st.get("hyp_programs", 0) + 1
    st["hyp_families"] = st.get("hyp_families", 0) + len(fp["families"])
    ctx.obligation("engine-hyp:%s:wf_rules" % name, wf == "true", "%d sub-rules" % len(fp["rules"]))
    if wf != "true":
        ctx.broken.append("engine hypothesis wf_rules fails for a translated program (a conclusion variable does not occur in the premise)\n%s" % res["text"][:600])
    # reference sub-rules / emitted sub-rules by position -> family
    ref_owner = []
    for f in fp["families"]:
        n = 1 if f["kind"] in ("func", "empty") else len(f["src"]["prem"])
        ref_owner += [f] * n
    em_owner = {}
    for f in fp["families"]:
        for i in f["members"]:
            em_owner[i] = f
    problems = [(f["name"], pb) for f in fp["families"] for pb in f["problems"]]
    detail = "%d families" % len(fp["families"])
    ctx.obligation("engine-hyp:%s:FamOK" % name, fok == "true", detail)
    ctx.obligation("engine-hyp:%s:FamSound" % name, fsnd == "true", detail)
    if fok == "true" and fsnd == "true":
        return
    bad_fams = []
    for pos in (uncovered if fok != "true" else []):
        if pos < len(ref_owner) and ref_owner[pos] not in bad_fams:
            bad_fams.append(ref_owner[pos])
    for pos in (foreign if fsnd != "true" else []):
        if pos in em_owner and em_owner[pos] not in bad_fams:
            bad_fams.append(em_owner[pos])
    for f in bad_fams[:3]:
        members = [{"name": fp["rules"][i]["name"], "premise": ["%s%d(%s) [%s]" % ("TySet" if a[0] == "ty" else "rel", a[1], ",".join(map(str, a[2])), a[3])
                                                                 for a in fp["rules"][i]["prem"]]} for i in f["members"]]
        rows = tfprog.family_rows(f, fp["rules"])
        lab = tflat.failing_labelling(rows, len(f["src"]["prem"])) if rows else None
        rep = {"kind": "family", "property": "C16", "program": res["text"], "family": f["name"], "subrules": members,
               "family_problems": f["problems"], "famok_check": fok, "famsound_check": fsnd}
        what = "engine hypothesis %s fails for family %s" % ("FamOK" if fok != "true" else "FamSound", f["name"])
        if lab is not None:
            rep["labelling_new"] = lab[0]
            rep["enumerated_by"] = lab[1]
            rep["expected"] = lab[2]
            what += ": the labelling new=%s of its premise atoms is enumerated by %s sub-rules (expected %s)" % (lab[0], lab[1], lab[2])
        if lab is not None and lab[1] == 0 and any(lab[0]):
            # a match that uses a new row and is enumerated by NO sub-rule: completeness of close() is at stake
            rep["property"] = pid if pid in ("C01", "C16") else "C01"
            ctx.violation(rep, what)
        else:
            ctx.broken.append(what + "\nsub-rules: %s\nprogram:\n%s" % (members, res["text"][:600]))
            ctx.write_replay(rep)
    if not bad_fams:
        ctx.broken.append("engine hypothesis FamOK/FamSound fails for a translated program (%s)\n%s" % (problems[:3], res["text"][:600]))


def engine_tie(ctx, results_or_programs, pid, nprog=None, nhist=None, nmerge=None):
    """nprog: at most that many programs of `results_or_programs` (enum programs are skipped); nhist: histories per program;
    nmerge: additional programs from the union/diagonal-biased generator of C04 (histories generated here)."""
    quick = ctx.tier == "quick"
    nprog = (16 if quick else 48) if nprog is None else nprog
    nhist = nhist or (5 if quick else 8)
    nmerge = (6 if quick else 20) if nmerge is None else nmerge
    if not any(o[0] == "build:Engine" for o in ctx.obligations):
        ctx.coq_build("Engine")
    if not any(o[0] == "build:Sem" for o in ctx.obligations):
        ctx.coq_build("Sem")
    if not any(o[0].startswith("thm:Tie_") for o in ctx.obligations):
        ctx.coq_props("Engine", "Props_Tie.v", required=TIE_REQ)
    if not any(o[0] == "thm:Sem.FactsIso.iso_map_b_sound" for o in ctx.obligations):
        # the verdict of pass 2 is Sem.Iso.iso_map_b; its soundness theorem is not re-exported by Props_Sem.v
        d = os.path.join(VERIF, "coq", "Sem")
        os.makedirs(os.path.join(d, "gen"), exist_ok=True)
        with open(os.path.join(d, "gen", "assump_iso_map.v"), "w") as fh:
            fh.write("Require Import Sem.Syntax Sem.Iso Sem.SpecHom Sem.FactsIso.\nCheck (iso_map_b_sound : forall m A B, iso_map_b m A B = true -> Iso A B).\n"
                     "Print Assumptions iso_map_b_sound.\n")
        rc, out = sh("coqc -noglob -Q . Sem gen/assump_iso_map.v", cwd=d, timeout=600)
        ok = rc == 0 and "Closed under the global context" in out
        ctx.checker_cmds.append("cd coq/Sem && coqc -noglob -Q . Sem gen/assump_iso_map.v")
        ctx.obligation("thm:Sem.FactsIso.iso_map_b_sound", ok, "closed under the global context" if ok else out[-300:])
        if not ok:
            ctx.broken.append("Sem.FactsIso.iso_map_b_sound (soundness of the isomorphism verdict) is missing or depends on axioms")
    def usable(r):
        if "prog" not in r:
            return "sig" in r and not r["sig"].get("enums")
        return r.get("status") == "ok" and r.get("sets") and not r["prog"]["sig"].get("enums")
    skipped_enum = sum(1 for r in results_or_programs if (r.get("prog") or r).get("sig", {}).get("enums"))
    items = [r for r in results_or_programs if ("prog" in r or "sig" in r) and usable(r)][:nprog]
    items += merge_programs(ctx.seed, nmerge) + def_programs(ctx.seed, max(1, nmerge // 2))
    import time
    t0 = time.time()
    timing = {}
    scratch = os.path.join(CACHE, "scratch", "tie-%s-%d" % (pid, os.getpid()))
    os.makedirs(scratch, exist_ok=True)
    try:
        gendrv.runtime_rlib()
        args = [(ctx.seed, it.get("idx", 20000 + i), scratch, it, nhist, 20) for i, it in enumerate(items)]
        with ProcessPoolExecutor(max_workers=16) as ex:
            results = list(ex.map(tie_worker, args))
    finally:
        shutil.rmtree(scratch, ignore_errors=True)
    timing["drivers_histories_search_s"] = round(time.time() - t0, 1)
    st = {"programs": {}, "programs_with_enums_skipped": skipped_enum, "histories": {}, "closes": 0, "observation_points": 0, "iterations": 0, "iterations_with_ties": 0,
          "iterations_needing_advice": 0, "searches": 0, "alternatives_tried": 0, "merging_iterations": 0,
          "translated_subrules": 0, "judged_in_coq": 0}
    for res in results:
        st["programs"][res["status"]] = st["programs"].get(res["status"], 0) + 1
        if res["status"] in ("translate_failed", "component_failed", "desc_failed"):
            ctx.broken.append("engine tie: the emitted code of a generated program could not be translated (%s): %s\n%s" % (
                res["status"], res["log"][:300], res["text"][:400]))
        elif res["status"] != "ok":
            ctx.cov.setdefault("tie_unusable_programs", []).append({"status": res["status"], "log": res["log"][-200:]})
        if res.get("template_deviation"):
            ctx.broken.append("engine tie: the emitted close_until differs from the modelled template: %s" % res["template_deviation"])
        if res["status"] == "ok":
            st["translated_subrules"] += len(res["fp"]["rules"])
            for pb in res["fp"]["problems"]:
                ctx.broken.append("engine tie: %s\n%s" % (pb, res["text"][:300]))
    # ---------------- pass 1: the model of the theorems, in Coq
    shards = [([], []) for _ in range(16)]
    where = [[] for _ in range(16)]
    load = [0] * 16
    for res in results:
        if res["status"] != "ok":
            continue
        todo = [h for h in res["hist"] if h.get("status") in ("ok", "diff")]
        s = load.index(min(load))
        load[s] += 3 + sum(len(h["calls"]) + 5 * sum(len(c["impl"]) for c in h["closes"]) for h in todo)
        shards[s][0].append("Definition P%d : fprogram := %s.\nDefinition W%d : wtable := %s.\nDefinition S%d : list frule := %s." % (
            res["idx"], tfprog.fprogram_coq(res["fp"]), res["idx"], tfprog.weights_coq(res["fp"]), res["idx"], tfprog.src_coq(res["fp"])))
        # the hypotheses of the engine theorems about THIS program, as instance obligations
        shards[s][1].append("(forallb wf_rule_b (fp_rules P%d), famok_check S%d (fp_rules P%d), famsound_check S%d (fp_rules P%d), "
                            "famok_uncovered S%d (fp_rules P%d), famsound_foreign S%d (fp_rules P%d))" % ((res["idx"],) * 9))
        where[s].append((res, None))
        for h in todo:
            adv = coq_list(h["advice"], lambda cl: coq_list(cl, lambda pr: coq_list(pr)))
            shards[s][1].append("run_engineW %d P%d W%d %s %s" % (FUEL, res["idx"], res["idx"], adv,
                                                                  coq_list([ecall_coq(c) for c in h["calls"]])))
            where[s].append((res, h))
    try:
        vals = engine.coq_run(ctx, "Engine", "tie_%s" % pid.lower(), [("\n".join(p), e) for (p, e) in shards], HEADER1, timeout=3600)
    except Exception as ex:
        ctx.broken.append("engine tie: evaluation of RunW.run_engineW failed: %s" % str(ex)[:400])
        vals = None
    timing["coq_model_runs_s"] = round(time.time() - t0 - timing["drivers_histories_search_s"], 1)
    t1 = time.time()
    # ---------------- pass 2: isomorphism of every observation point, in Coq
    j = engine.Judge(ctx, "tie2_%s" % pid.lower())
    ratios = []
    port_dev = 0
    pending_verdicts = []
    for s in range(16):
        for (res, h), v in zip(where[s], vals[s] if vals else []):
            if h is None:
                program_hypotheses(ctx, res, v, pid, st)
                continue
            prog = res["prog"]
            sig = prog["sig"]
            nrel, nt = len(sig["rels"]), sig["ntypes"]
            (outs, _final, handles, stuck, bounds, wok) = v
            h["coq"] = {"stuck": stuck, "bounds": bounds, "wok": wok}
            if wok != "true":
                ctx.broken.append("engine tie: the model's stored weights differ from the weights recomputed from its rows\n%s calls: %s" % (res["text"], h["calls"]))
            nodefs = not any(c[0] == "def" for ru in res["fp"]["rules"] for c in ru["conc"])
            h["verdicts"] = []
            for ci, (cl, out) in enumerate(zip(h["closes"], outs)):
                if out == "None":
                    h["coq"]["fuel"] = True
                    break
                (evals, _fin, ret) = out[1]
                cl["coq_ret"] = (ret == "true")
                cl["coq_evals"] = len(evals)
                if nodefs and ci < len(bounds):
                    ratios.append((len(evals) - 1, bounds[ci]))
                    if len(evals) - 1 > bounds[ci]:
                        ctx.broken.append("engine tie: the model needs %d iterations, iter_bound is %d (C06_close_terminates)\n%s" % (len(evals) - 1, bounds[ci], res["text"]))
                # handles at the time of this close: those created before it
                nh = 0
                seen = -1
                for c in h["calls"]:
                    if c[0] in ("close", "close_until"):
                        seen += 1
                        if seen == ci:
                            break
                    if c[0] in ("new", "define"):
                        nh += 1
                hcl = handles[:nh]
                for k, sn in enumerate(evals):
                    try:
                        M = norm_of_coq(sn, hcl, nt)
                    except ValueError as ex:
                        ctx.broken.append("engine tie: %s" % ex)
                        break
                    if k < len(cl["model"]) and not same_obs(M, cl["model"][k]):
                        port_dev += 1
                    if k >= len(cl["impl"]):
                        break
                    I = cl["impl"][k]
                    st["observation_points"] += 1
                    exact = []
                    if I["count"] != M["count"]:
                        exact.append("elements per type %s (implementation) vs %s (model)" % (I["count"], M["count"]))
                    if any(w != 0 for g, w in I["weights"].items() if I["rootof"][g] != g):
                        exact.append("a non-root element of the implementation has a non-zero weight")
                    cl["exact"].append(exact)
                    rec = {"close": ci, "eval": k, "code": None, "exact": exact}
                    h["verdicts"].append(rec)
                    funcs = [i for i, r in enumerate(sig["rels"]) if r["func"]]
                    m = iso_search(I, M, funcs)
                    sa, sb = structure_term(I, nrel, nt, False), structure_term(M, nrel, nt, True)
                    if m is not None:
                        # the verdict: Sem.Iso.iso_map_b on the map found here (FactsIso.iso_map_b_sound)
                        expr = "Sem.Iso.iso_map_b %s (%s) (%s)" % (coq_list(sorted(m.items()), lambda p: "(%d, %d)" % p), sa, sb)

                        def cb(v, rec=rec):
                            rec["code"] = 0 if v == "true" else "iso_map_b rejects the map found by the search aid"
                            st["judged_in_coq"] += 1
                    else:
                        expr = "check_iso_code %%P (%s) (%s)" % (sa, sb)

                        def cb(v, rec=rec):
                            rec["code"] = "no isomorphism found; iso_code %s" % (v,)
                            st["judged_in_coq"] += 1
                    j.ask(res, expr, cb)
            pending_verdicts.append((res, h))
    ok2 = j.run() if vals else False
    timing["coq_iso_verdicts_s"] = round(time.time() - t1, 1)
    if port_dev:
        ctx.cov["tie_port_deviations"] = port_dev
        ctx.broken.append("engine tie: the python port of ModelW (search aid) deviates from the Coq model in %d states" % port_dev)
    # ---------------- verdicts
    disagree = []
    for res, h in pending_verdicts:
        key = h.get("status")
        st["histories"][key] = st["histories"].get(key, 0) + 1
        st["closes"] += len(h["closes"])
        st["searches"] += h.get("searches", 0)
        st["alternatives_tried"] += h.get("tried", 0)
        for cl in h["closes"]:
            st["iterations"] += max(0, len(cl["model"]) - 1)
            st["iterations_with_ties"] += sum(1 for t in cl["ties"] if t)
            st["merging_iterations"] += sum(1 for t in cl["merges"] if t)
            st["iterations_needing_advice"] += sum(1 for p in cl["prefs"] if p)
        why = None
        bad = [r for r in h["verdicts"] if r["code"] != 0 or r["exact"]]
        if bad:
            r = bad[0]
            why = "close #%d, observation %d: %s" % (r["close"], r["eval"], "; ".join(r["exact"]) if r["exact"] else
                                                     "states are not isomorphic (check_iso_code = %s)" % (r["code"],))
        elif h["status"] == "diff":
            d = h["diff"]
            why = "close #%d, observation %d: %s" % (d["close"], d["eval"], d["why"])
        else:
            for ci, cl in enumerate(h["closes"]):
                if cl.get("coq_evals") != len(cl["impl"]):
                    why = "close #%d: %s iterations in the model, %d in the implementation" % (ci, (cl.get("coq_evals") or 0) - 1, len(cl["impl"]) - 1)
                    break
                if cl.get("coq_ret") != cl["impl_ret"]:
                    why = "close #%d returns %s in the model, %s in the implementation" % (ci, cl.get("coq_ret"), cl["impl_ret"])
                    break
        nontriv = any(len(cl["model"]) >= 3 for cl in h["closes"])
        ctx.count("tie", (res["idx"], repr(h["calls"])) if nontriv else None, nontriv)
        if why:
            disagree.append((res, h, why))
    for res in results:
        for h in res.get("hist", []):
            if h.get("status") not in ("ok", "diff"):
                key = h.get("status")
                st["histories"][key] = st["histories"].get(key, 0) + 1
                if key == "crash":
                    ctx.violation(_replay(res, h, {"status": h["run_status"]}), "the generated code crashed (%s) on an API history" % h["run_status"][:80])
                elif key == "parse":
                    ctx.broken.append("engine tie: cannot read the driver's output: %s" % h.get("log"))
    # ---------------- a disagreement: is the implementation at fault?
    if disagree:
        j2 = engine.Judge(ctx, "tie3_%s" % pid.lower())
        judged = []
        for (res, h, why) in disagree[:40]:
            rec = {"closed": None, "iso": None}
            judged.append((res, h, why, rec))
            dumps = [gendrv.parse_dump(l, res["prog"]) for l in h.get("dumps", [])]
            ends_closed = bool(h["orig"]) and [c[0] for c in h["orig"] if c[0] != "dump"][-1] == "close"
            if not dumps or not ends_closed or h.get("hoe") is None:
                continue
            sfin = engine.canon_structure(dumps[-1], h["hoe"])

            def cb1(v, rec=rec):
                rec["closed"] = (v == "None")
            j2.ask(res, "check_closed %%P (%s)" % sfin, cb1)
            if h.get("canon"):
                canon = coq_list([progs.call_coq(c) for c in h["canon"]])

                def cb2(v, rec=rec):
                    rec["iso"] = None if v == "None" else (v[1][0] == 0)
                j2.ask(res, "iso_codes %d %%P %s [%s]" % (engine.FUEL, canon, sfin), cb2)
        j2.run()
        for (res, h, why, rec) in judged:
            faults = [k for k in ("closed", "iso") if rec[k] is False]
            rep = _replay(res, h, {"tie": why, "oracles": rec})
            if faults:
                what = {"closed": "the model after the final close() is not closed under the rules",
                        "iso": "the model after the final close() is not the free model of the asserted facts"}
                mine = [f for f in faults if pid in ORACLE_PROPS[f] or pid == "CTIE"]
                if mine:
                    ctx.violation(rep, "%s (found by the engine tie: %s)" % ("; ".join(what[f] for f in mine), why))
                else:
                    ctx.broken.append("engine tie: the emitted loop leaves the engine model and the implementation is at fault (%s): %s" % (
                        "; ".join(what[f] for f in faults), why))
                    ctx.write_replay(rep)
            else:
                ctx.broken.append("correspondence engine-model vs emitted loop: %s\nprogram:\n%s calls: %s" % (why, res["text"], h["calls"]))
                ctx.write_replay(rep)
    # ---------------- coverage
    hist = {}
    for (n, b) in ratios:
        key = "0" if n == 0 else "<=1%" if 100 * n <= b else "<=5%" if 20 * n <= b else "<=25%" if 4 * n <= b else "<=100%" if n <= b else ">100%"
        hist[key] = hist.get(key, 0) + 1
    st["iterations_vs_iter_bound"] = {"closes_of_programs_without_defs": len(ratios), "histogram_of_count_over_bound": hist,
                                      "max_count": max([n for n, _ in ratios] or [0]), "min_bound": min([b for _, b in ratios] or [0])}
    st["disagreements"] = len(disagree)
    st["timing"] = timing
    ctx.cov["engine_tie"] = st
    for res, h in pending_verdicts[:1]:
        ctx.sample({"tie_program": res["text"], "tie_calls": str(h["calls"])[:400], "tie_advice": str(h["advice"])[:200]})
    ctx.obligation("tie:ModelW vs emitted close_until, every observation point isomorphic (check_iso in Coq)",
                   bool(vals) and ok2 and not disagree and st["judged_in_coq"] > 0,
                   "%d observation points of %d histories judged" % (st["judged_in_coq"], len(pending_verdicts)))
