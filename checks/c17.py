"""C17 - member relations are inherited along morphisms like ordinary facts.

Deciding method: Coq theorems about the specification model of coq/Members (least fixed point of rules + inheritance:
inheritance along composable morphisms, nothing between unconnected models, closedness with respect to `all`,
independence of when morphisms were added) and about the faithful model of the emitted loop (C17_partial under the
side condition early_morphisms, C17_full_refuted with the F7 history) + per-case evaluation inside Coq:
every dump of the implementation (taken after every close of a history) is compared as a set of facts over the
caller's handles with the SPECIFICATION model (the oracle) and with the FAITHFUL model (exact agreement expected).

A disagreement with the specification is a violation, except when it matches the known finding
`inherit-after-close`: (1) the syntactic test gen/members_gen.late_transport holds for the history prefix (a close lies
strictly between the assertion of a transported member fact and the creation of the transporting morphism or of its
dom / cod tuple; a rule-derived dom / cod tuple is created inside a close), (2) the implementation only LOSES facts
(nothing it shows is absent from the specification) and (3) the faithful model predicts the dump exactly.
A disagreement with the faithful model is model drift (ctx.broken).
"""
import glob
import json
import os
import shutil
import sys
import time
from concurrent.futures import ProcessPoolExecutor, ThreadPoolExecutor

sys.path.insert(0, os.path.join(os.path.dirname(os.path.dirname(os.path.abspath(__file__))), "gen"))

import members_gen as mg
import memdrv
from common import CACHE, VERIF, Rng, coq_list, parse_coq_value, sh, split_eval_outputs, tail

LEVEL = "proof"
FUEL = 80
FINDING_KEY = "inherit-after-close"
FINDING_WHAT = ("member facts that were already closed (old) when a morphism out of their model gets its dom/cod tuple are "
                "inherited into the codomain's `all` tables as old tuples: queries see them, rules never fire on them "
                "(model Mm { pred pa(x: Ta); } rule { if cb().pa(x); then qa(x); }: insert_pa(ca, x); close(); add morphism "
                "ca -> cb; close() gives pa(cb, x) without qa(x); the same happens within ONE close when dom/cod are derived "
                "by rules as in eqlog-test-eval/src/subset_rules.eql)")
REQUIRED = ["C17_spec_lfp", "C17_inherit_transitive", "C17_inherit_only_along_paths", "C17_spec_closed",
            "C17_inherited_like_asserted", "C17_spec_history_indep", "C17_inherit_spec", "C17_member_closed_b_sound",
            "C17_member_iso_b_sound", "C17_diff_spec", "C17_toposort_valid", "C17_recompute_age_any_order",
            "C17_recompute_inherit", "C17_partial", "C17_partial_timely", "C17_closed_partial_timely", "C17_early_timely",
            "C17_inherit_transitive_partial", "C17_inherit_only_along_paths_partial",
            "C17_closed_partial", "C17_history_indep_partial", "C17_full_refuted", "C17_full_refuted_witness"]
HEADER = ("From Coq Require Import List BinNat. Import ListNotations.\nRequire Import Members.Model Members.Run.\nOpen Scope N_scope.\n")


# ------------------------------------------------------------------------------------------ implementation side

def run_program(args):
    """Compile one program and run its histories. -> dict"""
    (key, prog, text, histories, scratch) = args
    wd = os.path.join(scratch, "p%s" % key)
    built, status, log = memdrv.compile_program(prog, wd, text=text)
    res = {"key": key, "prog": prog, "text": text, "status": status, "log": log[-4000:], "runs": []}
    if built is None:
        shutil.rmtree(wd, ignore_errors=True)
        return res
    for (name, calls) in histories:
        lines, st = built.run(calls, timeout=20)
        res["runs"].append({"name": name, "calls": calls, "lines": lines, "status": st})
    built.cleanup()
    return res


def generated_cases(seed, nprog, nworld):
    out = []
    for idx in range(nprog):
        rng = Rng(seed).fork("c17-%d" % idx)
        g = mg.Gen(rng)
        prog = g.program()
        hs = []
        for wi in range(nworld):
            w = g.world(prog)
            for v in mg.VARIANTS:
                calls = g.history(prog, w, v)
                ok, _ = mg.in_fragment(prog, calls)
                if ok:
                    hs.append(("w%d-%s" % (wi, v), calls))
        out.append(("g%d" % idx, prog, mg.prog_eql(prog), hs))
    return out


def corpus_cases():
    out = []
    for f in sorted(glob.glob(os.path.join(VERIF, "corpus", "C17", "*.json"))):
        c = json.load(open(f))
        text = open(c["eql_file"]).read() if c.get("eql_file") else mg.prog_eql(c["prog"])
        out.append(("c-" + os.path.basename(f)[:-5].replace("-", "_"), c["prog"], text,
                    [(h["name"], h["calls"]) for h in c["histories"]], c))
    return out


# ------------------------------------------------------------------------------------------ Coq side

def dump_coq(facts):
    return coq_list(["(%d%%N, %s)" % (r, coq_list(row, lambda v: "%d%%N" % v)) for (r, row) in sorted(facts)])


def coq_run(ctx, name, shards, timeout=1500):
    d = os.path.join(VERIF, "coq", "Members")
    os.makedirs(os.path.join(d, "gen"), exist_ok=True)

    def one(i):
        prelude, exprs = shards[i]
        if not exprs:
            return []
        f = os.path.join(d, "gen", "cases_%s_%d.v" % (name, i))
        with open(f, "w") as fh:
            fh.write(HEADER + prelude + "\n")
            for e in exprs:
                fh.write("Eval vm_compute in (%s).\n" % e)
        rc, out = sh("coqc -noglob -Q . Members gen/cases_%s_%d.v" % (name, i), cwd=d, timeout=timeout)
        if rc != 0:
            raise RuntimeError("coqc failed on %s: %s" % (f, tail(out, 15)))
        vals = split_eval_outputs(out)
        if len(vals) != len(exprs):
            raise RuntimeError("%d values for %d expressions in %s" % (len(vals), len(exprs), f))
        return [parse_coq_value(v) for v in vals]
    ctx.checker_cmds.append("cd coq/Members && coqc -noglob -Q . Members gen/cases_%s_*.v" % name)
    with ThreadPoolExecutor(max_workers=16) as ex:
        return list(ex.map(one, range(len(shards))))


def facts_of_coq(v):
    """parsed Coq list of (rel, [args]) -> set"""
    return set((r, tuple(row)) for (r, row) in v)


def rel_label(prog, r):
    for k in mg.all_relkeys(prog):
        if mg.rel_id(prog, k) == r:
            return mg.rel_name(prog, k)
    return "R%d" % r


def show_facts(prog, facts):
    return ", ".join("%s(%s)" % (rel_label(prog, r), ",".join("h%d" % x for x in row)) for (r, row) in sorted(facts))


# ------------------------------------------------------------------------------------------ judging

def judge(ctx, results, stats):
    nshard = 16
    shards = [([], [], []) for _ in range(nshard)]
    load = [0] * nshard
    for res in results:
        if res["status"] != "ok":
            continue
        prog = res["prog"]
        pname = "p_%s" % res["key"].replace("-", "_")
        s = load.index(min(load))
        shards[s][0].append("Definition %s : mprogram := %s." % (pname, mg.prog_coq(prog)))
        for run_ in res["runs"]:
            if run_["status"] != "ok":
                ctx.violation({"kind": "history", "program": res["text"], "prog": prog, "calls": run_["calls"],
                               "status": run_["status"]},
                              "the generated code crashed or hung on an acyclic history of the fragment (%s)" % run_["status"][:80])
                continue
            dumps = memdrv.dumps_of(run_["lines"])
            run_["dumps"] = dumps
            expr = "c17_judge %d %s %s %s" % (FUEL, pname, mg.history_coq(prog, run_["calls"]),
                                              coq_list([dump_coq(d[0]) for d in dumps]))
            shards[s][1].append(expr)
            shards[s][2].append((res, run_))
            load[s] += 1 + len(run_["calls"]) // 8
    try:
        vals = coq_run(ctx, "c17", [("\n".join(p), e) for (p, e, _) in shards])
    except Exception as ex:
        ctx.broken.append("oracle evaluation failed: %s" % str(ex)[:400])
        return False
    for (p, e, cbs), vs in zip(shards, vals):
        for (res, run_), v in zip(cbs, vs):
            judge_one(ctx, res, run_, v, stats)
    return True


def judge_one(ctx, res, run_, v, stats):
    prog, calls, dumps = res["prog"], run_["calls"], run_["dumps"]
    replay = {"kind": "history", "case": "%s/%s" % (res["key"], run_["name"]), "program": res["text"], "prog": prog, "calls": calls}
    if v == "None":
        stats["outside_fragment_or_fuel"] += 1
        return
    (_, (faith, (early, timely))) = v
    early = (early == "true")
    timely = (timely == "true")
    close_at = [i for i, c in enumerate(calls) if c[0] == "close"]
    if any(d[1] for d in dumps):
        ctx.violation(replay, "a dump contains an element that the caller did not create (member predicates create no elements)")
    if any(d[2] for d in dumps):
        ctx.violation(replay, "point queries and iterators of a predicate disagree after close")
    if faith == "None":
        stats["faithful_undefined"] += 1
        ctx.broken.append("faithful model undefined (cycle/fuel) on a history the implementation closed: %s" % replay["case"])
        ctx.violation(dict(replay, model="faithful"), "model drift: the faithful model is undefined on this history", found_input=False)
        return
    judgements = faith[1]
    if len(judgements) != len(dumps):
        ctx.broken.append("trace length mismatch on %s" % replay["case"])
        return
    nontrivial = False
    for i, (j, d) in enumerate(zip(judgements, dumps)):
        (miss_s, extra_s, miss_f, extra_f, closed) = j
        miss_s, extra_s, miss_f, extra_f = (facts_of_coq(x) for x in (miss_s, extra_s, miss_f, extra_f))
        stats["dumps"] += 1
        prefix = calls[:close_at[i] + 1]
        asserted = len(mg.py_facts(prog, prefix))
        if len(d[0]) > asserted:
            nontrivial = True
        drift = bool(miss_f or extra_f)
        if drift:
            stats["faithful_disagrees"] += 1
            msg = ("model drift at dump %d of %s: the faithful model of the emitted loop predicts {%s} more and {%s} less than "
                   "the implementation shows" % (i, replay["case"], show_facts(prog, miss_f), show_facts(prog, extra_f)))
            if len(ctx.broken) < 3:
                ctx.broken.append(msg[:600])
            ctx.violation(dict(replay, dump=i, model="faithful"), msg, found_input=False)
        if not miss_s and not extra_s:
            stats["agree"] += 1
            if early:
                stats["agree_early"] += 1
            if timely:
                stats["agree_timely"] += 1
            continue
        stats["disagree"] += 1
        late = mg.late_transport(prog, prefix)
        what = "dump %d (after call %d): the implementation lacks {%s}%s compared with the specification model" % (
            i, close_at[i], show_facts(prog, miss_s), (" and shows {%s} in excess" % show_facts(prog, extra_s)) if extra_s else "")
        rp = dict(replay, dump=i, missing=sorted(miss_s), extra=sorted(extra_s), late_transport=late)
        if early or timely:
            # the proved part covers this history: a disagreement contradicts C17_partial(_timely) or the faithful model
            ctx.violation(rp, "history satisfies %s (C17_partial%s applies) but %s" % (
                "early_morphisms" if early else "timely", "" if early else "_timely", what))
            continue
        if late is not None and not extra_s and not drift:
            stats["known_finding"] += 1
            stats.setdefault("finding_instances", []).append((len(calls), replay["case"], dict(rp, observed=what)))
        else:
            ctx.violation(rp, what + ("" if late is not None else " and no close lies between a transported fact and its morphism"))
    ctx.count("history", (res["key"], run_["name"]) if nontrivial else None, nontrivial)
    if nontrivial:
        ctx.sample({"case": replay["case"], "program": res["text"][:500], "calls": str(calls)[:400]})


def run(ctx):
    ctx.trusted = ["coqc 8.16.1 kernel; vm_compute evaluates Members.Run.c17_judge on implementation dumps",
                   "lib/memdrv.py (driver generator), harness/build-driver (calls eqlog::process), rustc, the dump parser",
                   "gen/members_gen.py prints the .eql text and the Gallina program from one AST (a mismatch would show as a "
                   "disagreement, i.e. a false alarm); its python closure is used only to keep generated histories inside the "
                   "fragment and by the known-finding classifier late_transport"]
    ctx.assumptions = ["fragment: one model declaration with member predicates of 0..3 columns of non-member types (an accepted program "
                       "whose generated module rustc rejects is a violation: seed-two-columns pins /repo 9ee0d26), global types, predicates, constants of type "
                       "M / Mor(M), flat rules without `!`/equality conclusions; acyclic morphism graphs; dom, cod, constants "
                       "single-valued (no equality is ever forced)",
                       "C17_partial is proved under early_morphisms (no rule concludes dom/cod and every dom/cod tuple precedes "
                       "the first close) and C17_partial_timely under the finer state-dependent Run.timely (no old member tuple "
                       "sits in the domain of a morphism at the moment its dom/cod tuple is asserted); the syntactic reading "
                       "'every morphism precedes the first close after the facts it transports' is checked on every generated "
                       "history (a disagreement without late_transport is a violation); rules concluding dom/cod are outside both",
                       "the set-level faithful model abstracts the index orders and the order inside morphism_toposort (C18)"]
    ok, _ = ctx.coq_build("Members")
    if ok:
        ctx.coq_props("Members", "Props_C17.v", required=REQUIRED)
    b1 = ctx.cargo_build("build-driver")
    b2 = ctx.cargo_build("rt-driver")
    if not ok or b1 is None or b2 is None:
        return
    quick = ctx.tier == "quick"
    t0 = time.time()
    scratch = os.path.join(CACHE, "scratch", "c17-%d" % os.getpid())
    os.makedirs(scratch, exist_ok=True)
    replay = getattr(ctx, "replay", None)
    try:
        memdrv.gendrv.runtime_rlib()
        if replay:
            r = json.load(open(replay))
            cases = [("replay", r["prog"], r["program"], [("replay", r["calls"])])]
            ncorpus = 0
        else:
            corpus = corpus_cases()
            cases = [c[:4] for c in corpus] + generated_cases(ctx.seed, 10 if quick else 120, 3 if quick else 6)
            ncorpus = len(corpus)
        args = [(k, p, t, h, scratch) for (k, p, t, h) in cases]
        with ProcessPoolExecutor(max_workers=16) as ex:
            results = list(ex.map(run_program, args))
    finally:
        shutil.rmtree(scratch, ignore_errors=True)
    status = {}
    for r in results:
        status[r["status"]] = status.get(r["status"], 0) + 1
        if r["status"] in ("rustc_failed", "compiler_panic"):
            # the compiler accepted the program (or died on it): the generated module must compile
            multi = any(len(m["cols"]) >= 2 for m in r["prog"]["members"])
            if r["status"] == "rustc_failed":
                what = ("rustc rejects the module generated for an accepted program" +
                        (" with a multi-column member predicate" if multi else ""))
            else:
                what = "the compiler panics on a program of the fragment"
            ctx.violation({"kind": "program", "case": r["key"], "program": r["text"], "prog": r["prog"], "calls": [["close"]],
                           "status": r["status"], "log": r["log"][-800:]}, what)
        if r["status"] != "ok":
            ctx.cov.setdefault("unusable_programs", []).append({"status": r["status"], "text": r["text"][:600], "log": r["log"][-300:]})
            if (r["key"].startswith("c-") or r["key"] == "replay") and r["status"] == "rejected":
                ctx.broken.append("corpus program %s is rejected by the compiler: %s" % (r["key"], r["log"][-200:]))
    ctx.cov["programs"] = status
    ctx.cov["corpus_programs"] = ncorpus
    stats = {"dumps": 0, "agree": 0, "agree_early": 0, "agree_timely": 0, "disagree": 0, "known_finding": 0, "faithful_disagrees": 0,
             "faithful_undefined": 0, "outside_fragment_or_fuel": 0}
    t_impl = time.time() - t0
    done = judge(ctx, results, stats)
    # the known finding is reported ONCE per run, with the shortest history that shows it as replay
    inst = sorted(stats.pop("finding_instances", []), key=lambda x: (x[0], x[1]))
    if inst:
        ctx.violation(inst[0][2], FINDING_WHAT, finding_key=FINDING_KEY)
        stats["finding_samples"] = [{"case": c, "calls": r["calls"], "dump": r["dump"], "observed": r["observed"]} for (_, c, r) in inst[:3]]
    ctx.cov["runs"] = stats
    ctx.cov["timing_s"] = {"compile_and_run": round(t_impl, 1), "coq_judge": round(time.time() - t0 - t_impl, 1)}
    ctx.cov["rule"] = ("corpus (repo theories subset.eql / subset_rules.eql, hand-written seeds incl. the F7 histories) then generated "
                       "programs x worlds (<= 4 model elements, DAG of <= 4 morphisms + rule-derived constant morphisms, facts) x history "
                       "variants early / mid / late / split / closes; every dump after every close is compared with the specification "
                       "model and the faithful model inside Coq; non-trivial = the dump has more facts than were asserted")
    ctx.obligation("oracle:specification and faithful model evaluated in Coq on every dump", done and not ctx.broken,
                   "%d dumps, %d agree, %d known-finding, %d faithful disagreements" % (
                       stats["dumps"], stats["agree"], stats["known_finding"], stats["faithful_disagrees"]))
