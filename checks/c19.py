"""C19 - component build and module build implement the same model.

Deciding method: Coq theorems C19_boundary_ok_sound (imports and exports are in bijection by symbol and agree on the
environment struct field by field, in order) and C19_code_ok_sound (same rule code under the same symbols), coq/Boundary;
the boundary and the code of BOTH builds of every program are extracted from the emitted text on this run and the two
checkers are evaluated in Coq (instance obligations); additionally the module-build file minus its embedded rule
modules and digest must be byte-identical to the component-build module file, and the same API histories run against
both linked builds must give identical transcripts.
"""
import shutil

import modes
from common import coq_list

LEVEL = "translation_validation"


def run(ctx):
    ctx.trusted = ["coqc 8.16.1 kernel", "checks/modes.py extraction of imports/exports/struct fields from the emitted text (interning of "
                   "identifiers: equal text <-> equal number)", "rustc: two textually identical repr(Rust) struct definitions compiled by the "
                   "same rustc with the same flags have the same layout", "lib/gendrv.py, harness/build-driver"]
    ctx.assumptions = ["struct layout across the library boundary is rustc's (see trusted base)"]
    ok, _ = ctx.coq_build("Boundary")
    if ok:
        ctx.coq_props("Boundary", "Props_C19.v", required=["C19_boundary_ok_sound", "C19_code_ok_sound", "C19_boundary_ok_complete",
                                                                "C19_code_ok_complete"])
    if ctx.cargo_build("build-driver") is None or ctx.cargo_build("rt-driver") is None:
        return
    quick = ctx.tier == "quick"
    results, scratch = modes.run_both(ctx, 16 if quick else 120, 3 if quick else 8, keep_text=True, tag="c19")
    shutil.rmtree(scratch, ignore_errors=True)
    intern = {}

    def I(s):
        return intern.setdefault(s, len(intern) + 1)
    exprs, owners, details = [], [], {}
    nprog = ndis = 0
    # both build types must agree on acceptance (corpus incl. programs whose rule names collide with implicit rule modules)
    import glob
    import os
    from common import CACHE, VERIF, sh
    bd = os.path.join(CACHE, "target", "release", "build-driver")
    for f in sorted(glob.glob(os.path.join(VERIF, "corpus", "C13", "*.eql"))):
        wd = os.path.join(CACHE, "scratch", "c19acc-%d" % os.getpid())
        rcs = {}
        for mode in ("module", "component"):
            shutil.rmtree(wd, ignore_errors=True)
            for sub in ("in", "out", "comp"):
                os.makedirs(os.path.join(wd, sub))
            shutil.copy(f, os.path.join(wd, "in", "thy.eql"))
            args = [bd, mode, os.path.join(wd, "in"), os.path.join(wd, "out")]
            if mode == "component":
                args += [os.path.join(wd, "comp"), os.path.join(VERIF, "harness", "build-driver", "fake_rustc.sh"), "x"]
            rcs[mode], _ = sh(args, timeout=300)
        shutil.rmtree(wd, ignore_errors=True)
        ctx.obligation("acceptance agrees:%s" % os.path.basename(f), rcs["module"] == rcs["component"], str(rcs))
        if rcs["module"] != rcs["component"]:
            ctx.violation({"kind": "program", "program": open(f).read(), "exit_codes": rcs},
                          "the module build and the component build disagree on whether %s is accepted" % os.path.basename(f))
    for res in results:
        if res["module"][0] != res["component"][0] and "rejected" not in (res["module"][0], res["component"][0]):
            ctx.violation({"kind": "program", "program": res["text"], "module": res["module"], "component": res["component"]},
                          "one build type compiles, links and runs the program, the other does not (module: %s, component: %s)"
                          % (res["module"][0], res["component"][0]))
        if res["module"][0] != "ok" or res["component"][0] != "ok":
            continue
        nprog += 1
        f = res["files"]
        mtext, ctext, comps = f["module"], f["component"], f["components"]
        stripped, mods = modes.split_module_build(mtext)
        rep = {"kind": "program", "program": res["text"]}
        noblank = lambda t: [l for l in t.split("\n") if l.strip() != ""]
        if noblank(stripped) != noblank(ctext):
            ctx.violation(rep, "the module file of the component build differs from the module build (outside the embedded rule modules)")
        imports = []
        structs_m = modes.parse_structs(ctext)
        for (link, fn, env) in modes.parse_imports(ctext):
            imports.append((link, structs_m.get(env, [("<missing struct %s>" % env, "")])))
        exports, comp_code, mod_code = [], [], []
        for fname, src in comps.items():
            st = modes.parse_structs(src)
            for (symb, env) in modes.parse_exports(src):
                exports.append((symb, st.get(env, [("<missing struct %s>" % env, "")])))
                comp_code.append((symb, src.strip()))
        for name, body in mods.items():
            for (symb, env) in modes.parse_exports(body):
                mod_code.append((symb, "\n".join(l for l in body.split("\n")).strip()))
        # the first line of an embedded module is indented by the template; normalise leading blanks per line
        norm = lambda s: "\n".join(l.strip() for l in s.strip().split("\n") if l.strip() != "")
        side = lambda l: coq_list(l, lambda x: "{| sym := %d; env := %s |}" % (I(x[0]), coq_list(x[1], lambda ft: "(%d, %d)" % (I(ft[0]), I(ft[1])))))
        code = lambda l: coq_list(l, lambda x: "(%d, %d)" % (I(x[0]), I(norm(x[1]))))
        dm, dc = {a: norm(b) for a, b in mod_code}, {a: norm(b) for a, b in comp_code}
        details[res["idx"]] = {"only_module": sorted(set(dm) - set(dc)), "only_component": sorted(set(dc) - set(dm)),
                               "differing": [k for k in dm if k in dc and dm[k] != dc[k]]}
        exprs.append("(boundary_ok %s %s, code_ok %s %s)" % (side(imports), side(exports), code(mod_code), code(comp_code)))
        owners.append((res, len(imports), len(exports)))
        if sorted(f["rlibs"]) != sorted("lib%s.rlib" % s for (s, _) in exports):
            ctx.violation(rep, "component libraries %s do not correspond to the exported symbols %s" % (f["rlibs"], [s for s, _ in exports]))
        for r in res["runs"]:
            (lm, sm), (lc, sc) = r["module"], r["component"]
            nontriv = len(lm) > 8
            ctx.count("hist", (res["idx"], str(r["calls"])) if nontriv else None, nontriv)
            if (lm, sm.split(":")[0]) != (lc, sc.split(":")[0]):
                ndis += 1
                k = next((i for i, (a, b) in enumerate(zip(lm, lc)) if a != b), min(len(lm), len(lc)))
                ctx.violation(dict(rep, calls=r["calls"], first_difference=k, module=lm[k:k + 2], component=lc[k:k + 2]),
                              "the same API history gives different observable results on the module build and the component build")
    if ok and exprs:
        try:
            nshard = 8
            vals = ctx.coq_eval("Boundary", "c19", [[coq_list(exprs[i::nshard])] for i in range(nshard)],
                                "Require Import List NArith. Import ListNotations.\nRequire Import Boundary.Model.\nOpen Scope N_scope.")
            for i, (res, ni, ne) in enumerate(owners):
                b, c = vals[i % nshard][0][i // nshard]
                ctx.obligation("p%d:boundary_ok (%d imports, %d exports)" % (res["idx"], ni, ne), b == "true")
                ctx.obligation("p%d:code_ok" % res["idx"], c == "true")
                if b != "true":
                    ctx.violation({"kind": "program", "program": res["text"]}, "imports of the module and exports of the components do not match "
                                  "(symbol missing/duplicated or environment struct fields differ)")
                if c != "true":
                    ctx.violation({"kind": "program", "program": res["text"], "detail": details.get(res["idx"])}, "rule code embedded in the module build differs from the component sources")
        except Exception as ex:
            ctx.broken.append("boundary evaluation failed: %s" % str(ex)[:300])
    ctx.cov["programs"] = nprog
    ctx.cov["disagreements_checked"] = sum(len(r["runs"]) for r in results)
    ctx.cov["rule"] = ("random programs (incl. enums/match/branch and wide relations) built in both modes with real rustc; boundary and rule "
                       "code extracted from both builds; 3 histories with all iterators printed run on both; non-trivial = transcript > 8 lines")
    for res in results:
        if res["module"][0] == "ok" and res["runs"]:
            ctx.sample({"program": res["text"][:600], "transcript_head": res["runs"][0]["module"][0][:8]})
            break
